//! C01 — certificate validation: only correctly issued certificates are
//! accepted and resources never grow.
//!
//! Spaces (all exhaustive within the stated bounds, executed on the real
//! validator, compared with a bitmask / interval reference model):
//!   resources.<family>   issuer subset x leaf claim x overclaim mode x kind
//!   resources.combined   3-family product over a 4-atom universe
//!   resources.edges      single-address extensions of a claimed block
//!   relations            AKI x SKI x signing key x offered issuer x 5 instants x kind
//!   ta                   trust-anchor conditions
//!   depth3               TA -> CA -> CA -> EE: the result stays inside every ancestor
//!   tamper.bitflip       every single-bit flip of one valid certificate per kind
//!   object.history       ONE decoded Cert object (and its clones) validated repeatedly by
//!                        calls differing in issuer / instant / strictness / route; every
//!                        answer equals the answer a freshly decoded twin gives

use std::collections::BTreeMap;
use rayon::prelude::*;
use rpki::repository::cert::{Cert, Overclaim, ResourceCert};
use rpki::repository::resources::{AsBlocks, Asn, IpBlocks};
use rpki_verif::engine::pki::*;
use rpki_verif::engine::signer::PoolSigner;
use rpki_verif::{guard, hex, Ctx};

#[path = "../shared/mutate.rs"]
#[allow(dead_code)]
mod mutate;

const TA_KEY: usize = 0;
const CA_KEY: usize = 1;
const LEAF_KEY: usize = 2;
const OTHER_KEY: usize = 3;
const CA2_KEY: usize = 4;

#[derive(Clone, Copy, PartialEq, Eq, Debug)]
enum Fam { V4, V6, As }

impl Fam {
    fn name(self) -> &'static str { match self { Fam::V4 => "v4", Fam::V6 => "v6", Fam::As => "as" } }
}

/// Atom universes: up to 8 atoms per universe.
///   *p  (V4p, V6p): the eight /3 prefixes (prefix-expressible blocks)
///   V4, V6, As   : a PARTITION of the whole number space with single-value atoms at both
///                  ends and in the middle, so that "everything but one address/ASN" and
///                  blocks touching 0 / MAX are subsets of the universe
///   AsS          : eight isolated single ASNs (adjacent and non-adjacent)
#[derive(Clone, Copy, PartialEq, Eq, Debug)]
enum Uni { V4p, V6p, V4, V6, As, AsS }

impl Uni {
    fn fam(self) -> Fam { match self { Uni::V4p | Uni::V4 => Fam::V4, Uni::V6p | Uni::V6 => Fam::V6, Uni::As | Uni::AsS => Fam::As } }
    fn name(self) -> &'static str { match self { Uni::V4p => "v4.prefixes", Uni::V6p => "v6.prefixes", Uni::V4 => "v4.partition", Uni::V6 => "v6.partition", Uni::As => "as.partition", Uni::AsS => "as.sparse" } }
    fn default_for(f: Fam) -> Uni { match f { Fam::V4 => Uni::V4p, Fam::V6 => Uni::V6p, Fam::As => Uni::AsS } }
}

fn partition(bounds: [u128; 8], max: u128) -> Vec<(u128, u128)> {
    (0..8).map(|i| (bounds[i], if i == 7 { max } else { bounds[i + 1] - 1 })).collect()
}

fn atoms(u: Uni, n: u32) -> Vec<(u128, u128)> {
    let v4max = u32::MAX as u128;
    let all: Vec<(u128, u128)> = match u {
        Uni::V4p => (0..8u128).map(|i| (i << 29, ((i + 1) << 29) - 1)).collect(),
        Uni::V6p => (0..8u128).map(|i| (i << 125, if i == 7 { u128::MAX } else { ((i + 1) << 125) - 1 })).collect(),
        Uni::V4 => partition([0, 1, 1 << 29, 1 << 31, (1 << 31) + 1, 3 << 30, v4max - 1, v4max], v4max),
        Uni::V6 => partition([0, 1, 1 << 125, 1 << 127, (1 << 127) + 1, 3 << 126, u128::MAX - 1, u128::MAX], u128::MAX),
        Uni::As => partition([0, 1, 2, 64512, 64513, 1 << 31, v4max - 1, v4max], v4max),
        Uni::AsS => [0u128, 1, 2, 3, 64512, 64513, 0xFFFF_FFFE, 0xFFFF_FFFF].iter().map(|v| (*v, *v)).collect(),
    };
    all.into_iter().take(n as usize).collect()
}

fn atom(f: Fam, i: u32) -> (u128, u128) { atoms(Uni::default_for(f), 8)[i as usize] }

fn ranges_in(at: &[(u128, u128)], mask: u32) -> Vec<(u128, u128)> {
    at.iter().enumerate().filter(|(i, _)| mask & (1 << i) != 0).map(|(_, a)| *a).collect()
}

fn ranges_of(f: Fam, mask: u32, natoms: u32) -> Vec<(u128, u128)> { ranges_in(&atoms(Uni::default_for(f), natoms), mask) }

/// Maps a library result to a bitmask by membership queries on every atom,
/// and checks that nothing outside the universe is contained.
fn mask_ip_in(f: Fam, b: &IpBlocks, at: &[(u128, u128)]) -> Result<u32, String> {
    let mut m = 0;
    for (i, &(lo, hi)) in at.iter().enumerate() {
        let blk = ip_blocks(if f == Fam::V4 { 32 } else { 128 }, &[(lo, hi)]).iter().next().unwrap();
        let c = b.contains_block(blk);
        let x = b.intersects_block(blk);
        if c != x { return Err(format!("atom {i} partially covered")) }
        if c { m |= 1 << i }
    }
    // every block end point must be an atom boundary inside the universe used
    for blk in b.iter() {
        let (mn, mx) = (blk.min().to_bits(), blk.max().to_bits());
        let (mn, mx) = if f == Fam::V4 { (mn >> 96, mx >> 96) } else { (mn, mx) };
        let ok_lo = at.iter().any(|a| a.0 == mn);
        let ok_hi = at.iter().any(|a| a.1 == mx);
        if !ok_lo || !ok_hi { return Err(format!("block {mn:#x}-{mx:#x} ends outside atom boundaries")) }
    }
    Ok(m)
}

fn mask_as_in(b: &AsBlocks, at: &[(u128, u128)]) -> Result<u32, String> {
    let mut m: u32 = 0;
    for (i, &(lo, hi)) in at.iter().enumerate() {
        let c = [lo, hi, lo + (hi - lo) / 2].map(|v| b.contains_asn(Asn::from_u32(v as u32)));
        if c[0] != c[1] || c[0] != c[2] { return Err(format!("atom {i} partially covered")) }
        if c[0] { m |= 1 << i }
    }
    // every stored block must be a union of whole atoms of the universe
    let mut covered: u32 = 0;
    for blk in b.iter() {
        let (mn, mx) = (blk.min().into_u32() as u128, blk.max().into_u32() as u128);
        if mx < mn { return Err(format!("inverted block AS{mn}-AS{mx}")) }
        let Some(first) = at.iter().position(|a| a.0 == mn) else { return Err(format!("block AS{mn}-AS{mx} starts outside atom boundaries")) };
        let mut i = first; let mut pos = mn;
        loop {
            if at[i].0 != pos { return Err(format!("block AS{mn}-AS{mx} covers ASNs outside the universe")) }
            covered |= 1 << i;
            if at[i].1 == mx { break }
            if at[i].1 > mx { return Err(format!("block AS{mn}-AS{mx} ends outside atom boundaries")) }
            pos = at[i].1 + 1; i += 1;
            if i >= at.len() { return Err(format!("block AS{mn}-AS{mx} covers ASNs outside the universe")) }
        }
    }
    if covered != m { return Err(format!("blocks cover atoms {covered:#x}, membership says {m:#x}")) }
    Ok(m)
}

fn mask_of_ip(f: Fam, b: &IpBlocks, natoms: u32) -> Result<u32, String> { mask_ip_in(f, b, &atoms(Uni::default_for(f), natoms)) }
fn mask_of_as(b: &AsBlocks, natoms: u32) -> Result<u32, String> { mask_as_in(b, &atoms(Uni::AsS, natoms)) }

fn result_mask_in(f: Fam, rc: &ResourceCert, at: &[(u128, u128)]) -> Result<u32, String> {
    match f {
        Fam::V4 => mask_ip_in(f, rc.v4_resources(), at),
        Fam::V6 => mask_ip_in(f, rc.v6_resources(), at),
        Fam::As => mask_as_in(rc.as_resources(), at),
    }
}

fn result_mask(f: Fam, rc: &ResourceCert, natoms: u32) -> Result<u32, String> {
    result_mask_in(f, rc, &atoms(Uni::default_for(f), natoms))
}

#[derive(Clone, Copy, PartialEq, Eq, Debug)]
enum LeafClaim { Missing, Inherit, Blocks(u32) }

fn claim_of(f: Fam, c: LeafClaim, natoms: u32) -> Claim {
    match c {
        LeafClaim::Missing => Claim::Missing,
        LeafClaim::Inherit => Claim::Inherit,
        LeafClaim::Blocks(m) => Claim::Blocks(ranges_of(f, m, natoms)),
    }
}

fn claim_in(at: &[(u128, u128)], c: LeafClaim) -> Claim {
    match c {
        LeafClaim::Missing => Claim::Missing,
        LeafClaim::Inherit => Claim::Inherit,
        LeafClaim::Blocks(m) => Claim::Blocks(ranges_in(at, m)),
    }
}

/// Reference model for one family: Some(result mask) = accepted.
fn model(issuer: u32, claim: LeafClaim, mode: Overclaim) -> Option<u32> {
    match claim {
        LeafClaim::Missing => Some(0),
        LeafClaim::Inherit => Some(issuer),
        LeafClaim::Blocks(s) => match mode {
            Overclaim::Refuse => if s & !issuer == 0 { Some(s) } else { None },
            Overclaim::Trim => Some(s & issuer),
        },
    }
}

fn res_with(f: Fam, c: Claim, filler: &Res) -> Res {
    let mut r = filler.clone();
    match f { Fam::V4 => r.v4 = c, Fam::V6 => r.v6 = c, Fam::As => r.asn = c }
    r
}

fn mode_name(m: Overclaim) -> &'static str { match m { Overclaim::Refuse => "refuse", Overclaim::Trim => "trim" } }

fn tns(secs: i64, ns: u32) -> rpki::repository::x509::Time { rpki::repository::x509::Time::new(chrono::DateTime::from_timestamp(secs, ns).unwrap()) }

fn validate(kind: Kind, cert: Cert, issuer: &ResourceCert, strict: bool, t: rpki::repository::x509::Time) -> Result<Option<ResourceCert>, String> {
    match kind {
        Kind::Ca => cert.validate_ca_at(issuer, strict, t).map(Some).map_err(|e| e.to_string()),
        Kind::Ee => cert.validate_ee_at(issuer, strict, t).map(Some).map_err(|e| e.to_string()),
        Kind::Router => cert.validate_router_at(issuer, strict, t).map(|_| None).map_err(|e| e.to_string()),
        Kind::Ta => cert.validate_ta_at(tal(), strict, t).map(Some).map_err(|e| e.to_string()),
    }
}

/// The second public entry point for EE certificates (used for signed objects that are not
/// published through the repository, e.g. RTA): same conditions as validate_ee_at.
fn validate_detached(cert: Cert, issuer: &ResourceCert, strict: bool, t: rpki::repository::x509::Time) -> Result<Option<ResourceCert>, String> {
    cert.validate_detached_ee_at(issuer, strict, t).map(Some).map_err(|e| e.to_string())
}

/// Evaluation instants around a validity window [nb, na] (whole seconds in the certificate):
/// (name, inside?, instant) including instants a fraction of a second outside the window.
fn instants(nb: i64, na: i64) -> Vec<(&'static str, bool, rpki::repository::x509::Time)> {
    vec![
        ("nb-1s", false, tns(nb - 1, 0)),
        ("nb-1ns", false, tns(nb - 1, 999_999_999)),
        ("nb", true, tns(nb, 0)),
        ("nb+1ns", true, tns(nb, 1)),
        ("inside", true, tns((nb + na) / 2, 500_000_000)),
        ("na-1ns", true, tns(na - 1, 999_999_999)),
        ("na", true, tns(na, 0)),
        ("na+1ns", false, tns(na, 1)),
        ("na+0.999999999s", false, tns(na, 999_999_999)),
        ("na+1s", false, tns(na + 1, 0)),
    ]
}

fn kind_name(k: Kind) -> &'static str { match k { Kind::Ta => "ta", Kind::Ca => "ca", Kind::Ee => "ee", Kind::Router => "router" } }

/// The observations the environment space compares between processes started with different
/// `TZ` settings: the decoded validity of certificates written with UTCTime and GeneralizedTime
/// and the verdicts at instants around both ends of the window, for every kind.
fn env_observations() -> Vec<String> {
    use rpki::repository::x509::Validity;
    let signer = PoolSigner::load();
    let ta = valid_ta(&signer, TA_KEY, Res::all());
    let ca_res = Res { v4: Claim::Blocks(vec![(0x0a00_0000, 0x0aff_ffff)]), v6: Claim::Missing, asn: Claim::Blocks(vec![(64496, 64511)]) };
    let ca = valid_ca(&signer, &ta, TA_KEY, CA_KEY, ca_res.clone());
    let mut out = Vec::new();
    // windows: ordinary (UTCTime), around midnight and a DST change date, GeneralizedTime (2050+)
    let windows: [(i64, i64); 4] = [(T0 - 1000, T0 + 1000), (1_711_846_800 - 3600, 1_711_846_800 + 3600) /* 2024-03-31T01:00Z */, (1_699_142_400, 1_699_228_800) /* 2023-11-05 */, (2_524_608_000 + 5, 2_524_608_000 + 86_400) /* 2050-01-01 */];
    for (wi, (nb, na)) in windows.iter().enumerate() {
        for kind in [Kind::Ta, Kind::Ca, Kind::Ee, Kind::Router] {
            let res = match kind { Kind::Ta => Res::all(), Kind::Router => Res { v4: Claim::Missing, v6: Claim::Missing, asn: Claim::Blocks(vec![(64500, 64500)]) }, _ => Res { v4: Claim::Blocks(vec![(0x0a00_0000, 0x0a00_00ff)]), v6: Claim::Missing, asn: Claim::Blocks(vec![(64500, 64501)]) } };
            let mut spec = if kind == Kind::Ta { Spec::ta(TA_KEY, res) } else { Spec::issued(kind, LEAF_KEY, CA_KEY, signer.ski(CA_KEY), res, Overclaim::Refuse) };
            spec.validity = Validity::new(time(*nb), time(*na));
            let der = build_cert_der(&signer, &spec);
            let c = Cert::decode(der.as_slice()).expect("decodes");
            out.push(format!("window={wi} kind={} decoded validity {}..{}", kind_name(kind), c.validity().not_before().timestamp(), c.validity().not_after().timestamp()));
            for (tn, _, t) in instants(*nb, *na) {
                let r = guard(|| validate(kind, Cert::decode(der.as_slice()).expect("decodes"), &ca, true, t).is_ok());
                out.push(format!("window={wi} kind={} t={tn} -> {:?}", kind_name(kind), r));
            }
        }
    }
    out
}

fn main() {
    if std::env::args().any(|a| a == "--observe-env") {
        rpki_verif::engine::report::install_quiet_panic_hook();
        for l in env_observations() { println!("{l}") }
        return;
    }
    let ctx = Ctx::new("C01", "exploration");
    ctx.assume("aws-lc RSA PKCS#1 v1.5 verification is correct; keys come from a fixed pool of 8");
    ctx.assume("certificates are built with the library's TbsCert and signed/assembled with aws-lc and the independent DER encoder");
    let signer = PoolSigner::load();
    let ta = valid_ta(&signer, TA_KEY, Res::all());
    let ta_ski = ta.subject_key_identifier();

    //---------------------------------------------------------------- resources per family
    // filler for the two families that do not vary: a fixed non-trivial value
    let filler_issuer = Res {
        v4: Claim::Blocks(vec![(0x0a00_0000, 0x0aff_ffff), (0xc000_0200, 0xc000_02ff)]),
        v6: Claim::Blocks(vec![(0x2001_0db8u128 << 96, (0x2001_0db8u128 << 96) | ((1u128 << 96) - 1))]),
        asn: Claim::Blocks(vec![(64496, 64511)]),
    };
    let filler_leaf = Res {
        v4: Claim::Blocks(vec![(0x0a00_0000, 0x0a00_ffff)]),
        v6: Claim::Inherit,
        asn: Claim::Blocks(vec![(64500, 64500)]),
    };
    for u in [Uni::As, Uni::V4, Uni::V6, Uni::AsS, Uni::V4p, Uni::V6p] {
        let f = u.fam();
        // quick: the partition universes of AS and v4 in full, the others with 6 atoms
        let natoms: u32 = if ctx.tier.is_thorough() || matches!(u, Uni::As | Uni::V4) { 8 } else { 6 };
        let at = atoms(u, natoms);
        let at = &at;
        let sp = ctx.space(&format!("resources.{}", u.name()),
            &format!("TA(all) -> CA with {fam} resources = every subset I of a {natoms}-atom universe -> leaf of kind CA/EE (and router for AS) claiming missing | inherit | every subset S, under refuse and trim; the other two families hold fixed non-trivial values; oracle: accept <=> (refuse => S subset of I), result mask = S | S&I | I | 0, result subset of issuer; non-trivial = (I,S,mode,kind) with S not subset of I or S&I != 0", fam = u.name()));
        // issuers: one CA certificate per subset
        let issuers: Vec<(u32, ResourceCert)> = (0..(1u32 << natoms)).into_par_iter().filter_map(|i| {
            // a CA whose varying family would be empty: claim it as "missing" unless others present (always present via filler)
            let claim = if i == 0 { Claim::Missing } else { Claim::Blocks(ranges_in(at, i)) };
            let spec = Spec::issued(Kind::Ca, CA_KEY, TA_KEY, ta_ski, res_with(f, claim, &filler_issuer), Overclaim::Refuse);
            let cert = build_cert(&signer, &spec);
            match cert.validate_ca_at(&ta, true, time(T0)) {
                Ok(rc) => {
                    match result_mask_in(f, &rc, at) {
                        Ok(m) if m == i => {}
                        other => ctx.fail("C01.resources.issuer", format!("universe={} I={i:#x}", u.name()), format!("issuer CA result mask {:?}", other)),
                    }
                    Some((i, rc))
                }
                Err(e) => { ctx.fail("C01.resources.issuer", format!("universe={} I={i:#x}", u.name()), format!("issuer CA under TA(all) rejected: {e}")); None }
            }
        }).collect();
        let ca_ski = signer.ski(CA_KEY);
        // leaves: independent of the issuer's resources
        let mut claims = vec![LeafClaim::Missing, LeafClaim::Inherit];
        claims.extend((1..(1u32 << natoms)).map(LeafClaim::Blocks));
        let kinds: &[Kind] = if f == Fam::As { &[Kind::Ca, Kind::Ee, Kind::Router] } else { &[Kind::Ca, Kind::Ee] };
        let mut leaves: Vec<(Kind, Overclaim, LeafClaim, Vec<u8>)> = Vec::new();
        for &k in kinds { for mode in [Overclaim::Refuse, Overclaim::Trim] { for &c in &claims {
            leaves.push((k, mode, c, Vec::new()));
        }}}
        leaves.par_iter_mut().for_each(|(k, mode, c, der)| {
            let res = if *k == Kind::Router {
                Res { v4: Claim::Missing, v6: Claim::Missing, asn: claim_in(at, *c) }
            } else { res_with(f, claim_in(at, *c), &filler_leaf) };
            *der = build_cert_der(&signer, &Spec::issued(*k, LEAF_KEY, CA_KEY, ca_ski, res, *mode));
        });
        sp.sample_str(|| format!("leaf kind=ee mode=refuse claim=Blocks(0b101) der={}…", &hex(&leaves[3].3)[..64]));
        issuers.par_iter().for_each(|(i, issuer)| {
            let mut oc: BTreeMap<&'static str, u64> = BTreeMap::new();
            let mut nt = 0u64;
            for (k, mode, c, der) in &leaves {
                let wit = || format!("universe={} kind={} mode={} I={:#x} claim={:?}", u.name(), kind_name(*k), mode_name(*mode), i, c);
                // router certificates must carry AS blocks (not inherit/missing): the profile says so
                let want = if *k == Kind::Router {
                    match c { LeafClaim::Blocks(_) => model(*i, *c, *mode), _ => None }
                } else { model(*i, *c, *mode) };
                let cert = match Cert::decode(der.as_slice()) {
                    Ok(c) => c,
                    Err(e) => {
                        // a certificate without any resources is not decodable at all: fine when the model rejects it anyway
                        if want.is_some() { ctx.fail("C01.resources.decode", wit(), format!("built certificate does not decode: {e}")) }
                        else { *oc.entry("rejected").or_insert(0) += 1 }
                        continue
                    }
                };
                if let LeafClaim::Blocks(s) = c { if s & !i != 0 || s & i != 0 { nt += 1 } }
                let got = guard(|| validate(*k, cert, issuer, true, time(T0)));
                match got {
                    Err(p) => ctx.fail("C01.resources.nopanic", wit(), p),
                    Ok(Err(e)) => {
                        *oc.entry("rejected").or_insert(0) += 1;
                        if want.is_some() { ctx.fail("C01.resources.accept", wit(), format!("model accepts with mask {:?}, library rejects: {e}", want)) }
                    }
                    Ok(Ok(rc)) => {
                        *oc.entry("accepted").or_insert(0) += 1;
                        match want {
                            None => ctx.fail("C01.resources.reject", wit(), "library accepts an overclaiming / non-conforming certificate"),
                            Some(w) => if let Some(rc) = rc {
                                match result_mask_in(f, &rc, at) {
                                    Ok(m) => {
                                        if m != w { ctx.fail("C01.resources.result", wit(), format!("result mask {m:#x}, model {w:#x}")) }
                                        if m & !i != 0 { ctx.fail("C01.resources.subset", wit(), format!("result {m:#x} not inside issuer {i:#x}")) }
                                    }
                                    Err(e) => ctx.fail("C01.resources.result", wit(), e),
                                }
                                // the non-varying families obey the same law against the filler
                                let ok_fill = match f {
                                    Fam::V4 => rc.v6_resources() == issuer.v6_resources() && issuer.as_resources().contains(rc.as_resources()),
                                    Fam::V6 => issuer.v4_resources().contains(rc.v4_resources()) && issuer.as_resources().contains(rc.as_resources()),
                                    Fam::As => issuer.v4_resources().contains(rc.v4_resources()) && rc.v6_resources() == issuer.v6_resources(),
                                };
                                if !ok_fill { ctx.fail("C01.resources.subset", wit(), "fixed families: result not inside issuer") }
                            }
                        }
                    }
                }
            }
            sp.evals(leaves.len() as u64);
            sp.nontrivial(nt);
            sp.merge_outcomes(&oc);
        });
        sp.set("atoms", serde_json::json!(at.iter().map(|(a, b)| format!("{a:#x}-{b:#x}")).collect::<Vec<_>>()));
        sp.done(true, &format!("all {} issuer subsets x {} leaf certificates ({} atoms)", issuers.len(), leaves.len(), natoms));
    }

    //---------------------------------------------------------------- combined 3-family product
    {
        let n: u32 = ctx.tier.pick(2, 3);
        let sp = ctx.space("resources.combined",
            &format!("all three families vary together over a {n}-atom universe each: issuer (I4,I6,Ia) x EE leaf claim per family in missing|inherit|subset x mode; oracle per family as above, acceptance = conjunction; non-trivial = at least one family overclaims or intersects"));
        let subsets: Vec<u32> = (0..(1u32 << n)).collect();
        let mut claims = vec![LeafClaim::Missing, LeafClaim::Inherit];
        claims.extend((1..(1u32 << n)).map(LeafClaim::Blocks));
        let mut issuer_specs = Vec::new();
        for &a in &subsets { for &b in &subsets { for &c in &subsets { if a | b | c != 0 { issuer_specs.push((a, b, c)) } } } }
        let mk = |f: Fam, m: u32| if m == 0 { Claim::Missing } else { Claim::Blocks(ranges_of(f, m, n)) };
        let issuers: Vec<((u32, u32, u32), ResourceCert)> = issuer_specs.par_iter().filter_map(|&(a, b, c)| {
            let spec = Spec::issued(Kind::Ca, CA_KEY, TA_KEY, ta_ski, Res { v4: mk(Fam::V4, a), v6: mk(Fam::V6, b), asn: mk(Fam::As, c) }, Overclaim::Refuse);
            match build_cert(&signer, &spec).validate_ca_at(&ta, true, time(T0)) {
                Ok(rc) => Some(((a, b, c), rc)),
                Err(e) => { ctx.fail("C01.combined.issuer", format!("I=({a:#x},{b:#x},{c:#x})"), e.to_string()); None }
            }
        }).collect();
        let mut leaves = Vec::new();
        for mode in [Overclaim::Refuse, Overclaim::Trim] { for &a in &claims { for &b in &claims { for &c in &claims {
            if a == LeafClaim::Missing && b == LeafClaim::Missing && c == LeafClaim::Missing { continue }
            leaves.push((mode, a, b, c, Vec::new()));
        }}}}
        let ca_ski = signer.ski(CA_KEY);
        leaves.par_iter_mut().for_each(|(mode, a, b, c, der)| {
            let res = Res { v4: claim_of(Fam::V4, *a, n), v6: claim_of(Fam::V6, *b, n), asn: claim_of(Fam::As, *c, n) };
            *der = build_cert_der(&signer, &Spec::issued(Kind::Ee, LEAF_KEY, CA_KEY, ca_ski, res, *mode));
        });
        issuers.par_iter().for_each(|((i4, i6, ia), issuer)| {
            let mut oc: BTreeMap<&'static str, u64> = BTreeMap::new();
            let mut nt = 0;
            for (mode, a, b, c, der) in &leaves {
                let wit = || format!("mode={} I=({i4:#x},{i6:#x},{ia:#x}) claim=({a:?},{b:?},{c:?})", mode_name(*mode));
                let want = match (model(*i4, *a, *mode), model(*i6, *b, *mode), model(*ia, *c, *mode)) {
                    (Some(x), Some(y), Some(z)) => Some((x, y, z)), _ => None };
                let touches = |i: u32, c: &LeafClaim| matches!(c, LeafClaim::Blocks(s) if s & i != 0 || s & !i != 0);
                if touches(*i4, a) || touches(*i6, b) || touches(*ia, c) { nt += 1 }
                let cert = Cert::decode(der.as_slice()).expect("decodes");
                // the detached-EE entry point must give the same verdict
                {
                    let c2 = Cert::decode(der.as_slice()).expect("decodes");
                    match guard(|| validate_detached(c2, issuer, true, time(T0))) {
                        Err(p) => ctx.fail("C01.combined.nopanic", wit(), p),
                        Ok(r) => if r.is_ok() != want.is_some() { ctx.fail("C01.combined.detached", wit(), format!("validate_detached_ee_at says {}, model {}", r.is_ok(), want.is_some())) },
                    }
                }
                match guard(|| validate(Kind::Ee, cert, issuer, true, time(T0))) {
                    Err(p) => ctx.fail("C01.combined.nopanic", wit(), p),
                    Ok(Err(e)) => { *oc.entry("rejected").or_insert(0) += 1;
                        if want.is_some() { ctx.fail("C01.combined.accept", wit(), format!("model accepts, library: {e}")) } }
                    Ok(Ok(rc)) => { *oc.entry("accepted").or_insert(0) += 1;
                        let rc = rc.unwrap();
                        let got = (result_mask(Fam::V4, &rc, n), result_mask(Fam::V6, &rc, n), result_mask(Fam::As, &rc, n));
                        match (want, got) {
                            (None, _) => ctx.fail("C01.combined.reject", wit(), "library accepts an overclaiming certificate"),
                            (Some(w), (Ok(x), Ok(y), Ok(z))) => if (x, y, z) != w { ctx.fail("C01.combined.result", wit(), format!("result ({x:#x},{y:#x},{z:#x}) model {w:?}")) },
                            (Some(_), g) => ctx.fail("C01.combined.result", wit(), format!("{g:?}")),
                        }
                    }
                }
            }
            sp.evals(leaves.len() as u64); sp.nontrivial(nt); sp.merge_outcomes(&oc);
        });
        sp.sample_str(|| format!("{} issuers x {} leaves", issuers.len(), leaves.len()));
        sp.done(true, &format!("{n} atoms per family, all three families combined"));
    }

    //---------------------------------------------------------------- single-address edges
    {
        let sp = ctx.space("resources.edges",
            "issuer holds [a,b]; an EE claims [a+da, b+db] for da,db in {-1,0,+1} (where representable), refuse and trim, per family, for (a,b) touching 0, the maximum and the middle; oracle: refuse accepts <=> a<=a' and b'<=b, result == claim; trim result == intersection (queried with contains_block / contains_asn at the four end points and their neighbours); non-trivial = claim differs from issuer block");
        let mut cases = Vec::new();
        for f in [Fam::V4, Fam::V6, Fam::As] {
            let max: u128 = if f == Fam::V6 { u128::MAX } else { u32::MAX as u128 };
            let mid = max / 2;
            for (a, b) in [(0u128, 0u128), (0, 5), (1, 6), (mid - 3, mid + 3), (max - 5, max), (max - 6, max - 1), (max, max), (0, max), (16, 31), (1, max - 1)] {
                for da in [-1i32, 0, 1] { for db in [-1i32, 0, 1] {
                    let a2 = match da { -1 => a.checked_sub(1), 1 => a.checked_add(1), _ => Some(a) };
                    let b2 = match db { -1 => b.checked_sub(1), 1 => b.checked_add(1).filter(|v| *v <= max), _ => Some(b) };
                    let (Some(a2), Some(b2)) = (a2, b2) else { continue };
                    if a2 > b2 || a2 > max { continue }
                    for mode in [Overclaim::Refuse, Overclaim::Trim] { cases.push((f, a, b, a2, b2, mode)) }
                }}
            }
        }
        let ca_ski = signer.ski(CA_KEY);
        cases.par_iter().for_each(|&(f, a, b, a2, b2, mode)| {
            sp.eval();
            if (a, b) != (a2, b2) { sp.nontrivial(1) }
            let wit = || format!("fam={} issuer=[{a:#x},{b:#x}] claim=[{a2:#x},{b2:#x}] mode={}", f.name(), mode_name(mode));
            let base_issuer = Res { v4: Claim::Missing, v6: Claim::Missing, asn: Claim::Missing };
            let ires = res_with(f, Claim::Blocks(vec![(a, b)]), &base_issuer);
            let issuer = match build_cert(&signer, &Spec::issued(Kind::Ca, CA_KEY, TA_KEY, ta_ski, ires, Overclaim::Refuse)).validate_ca_at(&ta, true, time(T0)) {
                Ok(rc) => rc, Err(e) => { ctx.fail("C01.edges.issuer", wit(), e.to_string()); return }
            };
            let lres = res_with(f, Claim::Blocks(vec![(a2, b2)]), &base_issuer);
            let leaf = build_cert(&signer, &Spec::issued(Kind::Ee, LEAF_KEY, CA_KEY, ca_ski, lres, mode));
            let inside = a <= a2 && b2 <= b;
            let (lo, hi) = (a.max(a2), b.min(b2)); // intersection (non-empty here since |d| <= 1 and a<=b, unless single points)
            let inter = if lo <= hi { Some((lo, hi)) } else { None };
            let member = |rc: &ResourceCert, x: u128| -> bool {
                match f {
                    Fam::As => rc.as_resources().contains_asn(Asn::from_u32(x as u32)),
                    Fam::V4 => rc.v4_resources().contains_block(ip_blocks(32, &[(x, x)]).iter().next().unwrap()),
                    Fam::V6 => rc.v6_resources().contains_block(ip_blocks(128, &[(x, x)]).iter().next().unwrap()),
                }
            };
            match guard(|| leaf.validate_ee_at(&issuer, true, time(T0))) {
                Err(p) => ctx.fail("C01.edges.nopanic", wit(), p),
                Ok(Err(e)) => { sp.outcome("rejected");
                    if mode == Overclaim::Trim || inside { ctx.fail("C01.edges.accept", wit(), format!("should be accepted: {e}")) } }
                Ok(Ok(rc)) => { sp.outcome("accepted");
                    if mode == Overclaim::Refuse && !inside { ctx.fail("C01.edges.reject", wit(), "claim extends one address beyond the issuer and is accepted under refuse"); return }
                    let want = if mode == Overclaim::Refuse { Some((a2, b2)) } else { inter };
                    let max: u128 = if f == Fam::V6 { u128::MAX } else { u32::MAX as u128 };
                    let mut pts = vec![a, b, a2, b2];
                    for p in [a, b, a2, b2] { if p > 0 { pts.push(p - 1) } if p < max { pts.push(p + 1) } }
                    for x in pts {
                        let w = want.map(|(l, h)| l <= x && x <= h).unwrap_or(false);
                        if member(&rc, x) != w { ctx.fail("C01.edges.result", wit(), format!("membership of {x:#x} is {}, model {w}", !w)); break }
                    }
                }
            }
        });
        sp.sample_str(|| "fam=as issuer=[0xfffffffa,0xffffffff] claim=[0xfffffff9,0xffffffff] mode=refuse -> rejected".into());
        sp.done(true, "10 issuer blocks x 9 one-address deviations x 2 modes x 3 families");
    }

    //---------------------------------------------------------------- scale: issuers holding many blocks
    {
        use rpki_verif::engine::certref as cr;
        let sp = ctx.space("resources.scale",
            "issuer holding N separate blocks (N = 1,2,7..9,15..18,31..33,63..65,127..129; thorough also 255..257, 1023..1025; block j sits in the j-th stride of 16 numbers as 3..9, 8..15 (a prefix) or the single number 5, in turn), per family; claim = every single range [a, b] that starts at any of the 16 positions of a queried stride and ends at any later position of that stride or the next (gap before / first / interior / last / gap after of the same and of the following block), plus the claims 'exactly blocks j and j+1' and 'every issuer block'; queried strides: first, second, middle, last two; refuse and trim; (1) through IpBlocks/AsBlocks::verify_issued, (2) a diagonal of the same claims (7 start x 11 end positions, 3 strides, N = 8,16,17,33; thorough also 65,129) through signed EE certificates validated under the validated issuer CA; oracle: interval model - refuse accepts iff the claim is inside the issuer and returns the claim, trim returns the intersection, result always inside the issuer; non-trivial = claims that touch at least one issuer block without being inside one");
        const S: u128 = 16;
        let shape = |j: usize| -> (u128, u128) { match j % 3 { 0 => (3, 9), 1 => (8, 15), _ => (5, 5) } };
        let ns: Vec<usize> = if ctx.tier.is_thorough() { vec![1, 2, 7, 8, 9, 15, 16, 17, 18, 31, 32, 33, 63, 64, 65, 127, 128, 129, 255, 256, 257, 1023, 1024, 1025] } else { vec![1, 2, 7, 8, 9, 15, 16, 17, 18, 31, 32, 33, 63, 64, 65, 127, 128, 129] };
        let cert_ns: Vec<usize> = if ctx.tier.is_thorough() { vec![8, 16, 17, 33, 65, 129] } else { vec![8, 16, 17, 33] };
        let base_of = |f: Fam| -> u128 { match f { Fam::As => 70_000, Fam::V4 => 0x0a00_0000, Fam::V6 => 0x2001_0db8u128 << 96 } };
        let to_iv_ip = |f: Fam, b: &IpBlocks| -> Vec<(u128, u128)> { b.iter().map(|x| if f == Fam::V4 { (x.min().to_bits() >> 96, x.max().to_bits() >> 96) } else { (x.min().to_bits(), x.max().to_bits()) }).collect() };
        let to_iv_as = |b: &AsBlocks| -> Vec<(u128, u128)> { b.iter().map(|x| (x.min().into_u32() as u128, x.max().into_u32() as u128)).collect() };
        let none = Res::none();
        let ca_ski = signer.ski(CA_KEY);
        let mut work: Vec<(Fam, usize)> = Vec::new();
        for f in [Fam::As, Fam::V4, Fam::V6] { for &n in &ns { work.push((f, n)) } }
        work.par_iter().for_each(|&(f, n)| {
            let base = base_of(f);
            let issuer: Vec<(u128, u128)> = (0..n).map(|j| { let (lo, hi) = shape(j); (base + S * j as u128 + lo, base + S * j as u128 + hi) }).collect();
            let mut strides: Vec<usize> = vec![0, 1, n / 2, n.saturating_sub(2), n - 1]; strides.retain(|j| *j < n); strides.sort(); strides.dedup();
            // the claims: (label, ranges)
            let mut claims: Vec<Vec<(u128, u128)>> = Vec::new();
            for &j in &strides { let s0 = base + S * j as u128; for a in 0..S { for b in a..2 * S { claims.push(vec![(s0 + a, s0 + b)]) } } if j + 1 < n { claims.push(vec![issuer[j], issuer[j + 1]]) } }
            claims.push(issuer.clone());
            let pure = |claim: &Vec<(u128, u128)>, mode: Overclaim| -> Result<Result<Vec<(u128, u128)>, ()>, String> {
                guard(|| match f {
                    Fam::As => as_blocks(&issuer).verify_issued(&as_res(&Claim::Blocks(claim.clone())), mode).map(|b| to_iv_as(&b)).map_err(|_| ()),
                    _ => { let bits = if f == Fam::V4 { 32 } else { 128 }; ip_blocks(bits, &issuer).verify_issued(&ip_res(bits, &Claim::Blocks(claim.clone())), mode).map(|b| to_iv_ip(f, &b)).map_err(|_| ()) }
                })
            };
            let judge = |route: &str, claim: &Vec<(u128, u128)>, mode: Overclaim, got: Result<Result<Vec<(u128, u128)>, ()>, String>| {
                sp.eval();
                let wit = || format!("route={route} fam={} issuer_blocks={n} mode={} claim={}", f.name(), mode_name(mode), claim.iter().map(|(a, b)| format!("base+{}..base+{}", a - base, b - base)).collect::<Vec<_>>().join(","));
                let claimed = cr::normalise(claim);
                let inside = cr::subset(&claimed, &issuer);
                let inter = cr::intersect(&claimed, &issuer);
                if !inter.is_empty() && !inside { sp.nontrivial(1) }
                match got {
                    Err(p) => ctx.fail("C01.scale.nopanic", wit(), p),
                    Ok(Err(())) => { sp.outcome("rejected");
                        if mode == Overclaim::Trim || inside { ctx.fail("C01.scale.accept", wit(), "a claim inside the issuer's resources (or any claim under the trimming policy) is rejected") } }
                    Ok(Ok(res)) => { sp.outcome(if inside { "accepted-inside" } else { "accepted-trimmed" });
                        if mode == Overclaim::Refuse && !inside { ctx.fail("C01.scale.reject", wit(), format!("claim reaches outside the issuer's {n} blocks and is accepted under the no-overclaim policy")); return }
                        let want = if mode == Overclaim::Refuse { claimed.clone() } else { inter.clone() };
                        if cr::normalise(&res) != want { ctx.fail("C01.scale.result", wit(), format!("result {:?} (relative to base), model {:?}", res.iter().map(|(a, b)| (a.wrapping_sub(base), b.wrapping_sub(base))).collect::<Vec<_>>(), want.iter().map(|(a, b)| (a - base, b - base)).collect::<Vec<_>>())) }
                    }
                }
            };
            for claim in &claims { for mode in [Overclaim::Refuse, Overclaim::Trim] { judge("verify_issued", claim, mode, pure(claim, mode)) } }
            if cert_ns.contains(&n) {
                let ires = res_with(f, Claim::Blocks(issuer.clone()), &none);
                let ca = match guard(|| build_cert(&signer, &Spec::issued(Kind::Ca, CA_KEY, TA_KEY, ta_ski, ires, Overclaim::Refuse)).validate_ca_at(&ta, true, time(T0))) {
                    Ok(Ok(rc)) => rc, other => { ctx.fail("C01.scale.issuer", format!("fam={} issuer_blocks={n}", f.name()), format!("the issuer CA with {n} blocks does not validate under a trust anchor holding everything: {:?}", other.map(|r| r.map(|_| ()).map_err(|e| e.to_string())))); return }
                };
                let pos: [u128; 11] = [0, 2, 3, 5, 9, 10, 15, 18, 19, 25, 26];
                let mut cstr: Vec<usize> = vec![0, n / 2, n - 1]; cstr.sort(); cstr.dedup();
                for &j in &cstr { let s0 = base + S * j as u128;
                    for &a in &pos[..7] { for &b in &pos { if b < a { continue }
                        let claim = vec![(s0 + a, s0 + b)];
                        for mode in [Overclaim::Refuse, Overclaim::Trim] {
                            let leaf = build_cert(&signer, &Spec::issued(Kind::Ee, LEAF_KEY, CA_KEY, ca_ski, res_with(f, Claim::Blocks(claim.clone()), &none), mode));
                            let got = guard(|| leaf.validate_ee_at(&ca, true, time(T0)).map(|rc| match f { Fam::As => to_iv_as(rc.as_resources()), Fam::V4 => to_iv_ip(f, rc.v4_resources()), Fam::V6 => to_iv_ip(f, rc.v6_resources()) }).map_err(|_| ()));
                            judge("certificate", &claim, mode, got);
                        }
                    } }
                }
            }
        });
        sp.sample_str(|| "route=verify_issued fam=v4 issuer_blocks=17 mode=refuse claim=base+130..base+137 (starts in the gap below block 8, ends inside it) -> rejected".into());
        sp.done(true, &format!("{} issuer sizes x 3 families x <= 5 strides x all 392 single-range claims per stride (+ block pairs, + the full set) x 2 policies through verify_issued; {} issuer sizes x 3 strides x 63 claims x 2 policies through certificates", ns.len(), cert_ns.len()));
    }

    //---------------------------------------------------------------- relations
    {
        let sp = ctx.space("relations",
            "leaf kind {ca, ee, ee through validate_detached_ee_at, router} x AKI {issuer SKI, other key's SKI, absent} x SKI {hash of key, hash of another key} x signing key {issuer, other} x offered issuer {the issuer, another CA with a different key} x validity window {[nb,na], inverted (notBefore > notAfter: accepts nothing)} x 10 evaluation instants {nb-1s, nb-1ns, nb, nb+1ns, inside, na-1ns, na, na+1ns, na+0.999999999s, na+1s}; oracle: accept <=> AKI == offered issuer's SKI and SKI == SHA-1(key) and signature verifies under the offered issuer's key and nb <= t <= na; non-trivial = exactly one condition violated");
        let ca_res = Res { v4: Claim::Blocks(vec![(0x0a00_0000, 0x0aff_ffff)]), v6: Claim::Missing, asn: Claim::Blocks(vec![(64496, 64511)]) };
        let ca = valid_ca(&signer, &ta, TA_KEY, CA_KEY, ca_res.clone());
        let other_ca = valid_ca(&signer, &ta, TA_KEY, OTHER_KEY, ca_res.clone());
        let nb = T0 - 1000; let na = T0 + 1000;
        let mut cases = Vec::new();
        for (kind, det) in [(Kind::Ca, false), (Kind::Ee, false), (Kind::Ee, true), (Kind::Router, false)] { for aki in 0..3 { for ski in 0..2 { for sk in 0..2 { for inv in [false, true] { cases.push((kind, det, aki, ski, sk, inv)) } } } } }
        cases.par_iter().for_each(|&(kind, det, aki, ski, sk, inv)| {
            let res = if kind == Kind::Router { Res { v4: Claim::Missing, v6: Claim::Missing, asn: Claim::Blocks(vec![(64500, 64500)]) } }
                      else { Res { v4: Claim::Blocks(vec![(0x0a00_0000, 0x0a00_00ff)]), v6: Claim::Missing, asn: Claim::Blocks(vec![(64500, 64501)]) } };
            let mut spec = Spec::issued(kind, LEAF_KEY, CA_KEY, signer.ski(CA_KEY), res, Overclaim::Refuse);
            // inv: the signed bytes say notBefore > notAfter, an empty window: nothing may be accepted,
            // in particular not the instants between the two dates
            spec.validity = if inv { rpki::repository::x509::Validity::new(time(na), time(nb)) } else { rpki::repository::x509::Validity::new(time(nb), time(na)) };
            spec.aki = match aki { 0 => Some(signer.ski(CA_KEY)), 1 => Some(signer.ski(OTHER_KEY)), _ => None };
            // router certs carry an EC key: its identifier is not in the pool; override with a pool key's id for "wrong"
            if ski == 1 { spec.ski_override = Some(signer.ski(5)) }
            spec.signing_key = if sk == 0 { CA_KEY } else { OTHER_KEY };
            let der = build_cert_der(&signer, &spec);
            for (offered_name, offered, offered_key) in [("issuer", &ca, CA_KEY), ("other-ca", &other_ca, OTHER_KEY)] {
                for (tn, t, tt) in instants(nb, na) {
                    sp.eval();
                    let wit = || format!("kind={}{}{} aki={} ski={} signed_by={} offered={} t={}", kind_name(kind), if det { "(detached entry point)" } else { "" }, if inv { " window=inverted" } else { "" }, ["issuer", "other", "absent"][aki], ["hash", "wrong"][ski], ["issuer", "other"][sk], offered_name, tn);
                    let c_aki = spec.aki == Some(signer.ski(offered_key));
                    let c_ski = ski == 0;
                    let c_sig = spec.signing_key == offered_key;
                    let c_time = t && !inv;
                    let nviol = [c_aki, c_ski, c_sig, c_time].iter().filter(|x| !**x).count();
                    if nviol == 1 { sp.nontrivial(1) }
                    let want = nviol == 0;
                    let cert = match Cert::decode(der.as_slice()) { Ok(c) => c, Err(e) => { ctx.fail("C01.relations.decode", wit(), e.to_string()); continue } };
                    match guard(|| if det { validate_detached(cert, offered, true, tt) } else { validate(kind, cert, offered, true, tt) }) {
                        Err(p) => ctx.fail("C01.relations.nopanic", wit(), p),
                        Ok(r) => {
                            sp.outcome(if r.is_ok() { "accepted" } else { "rejected" });
                            if r.is_ok() != want {
                                ctx.fail(if want { "C01.relations.accept" } else { "C01.relations.reject" }, wit(),
                                    format!("conditions aki={c_aki} ski={c_ski} sig={c_sig} time={c_time}; library says {:?}", r.as_ref().map(|_| "Ok").map_err(|e| e.clone())));
                            }
                        }
                    }
                }
            }
        });
        sp.sample_str(|| "kind=ee aki=issuer ski=hash signed_by=issuer offered=issuer t=na -> accepted".into());
        sp.done(true, "full product of the relation dimensions");
    }

    //---------------------------------------------------------------- entry points
    {
        let sp = ctx.space("entrypoints",
            "every public validation entry point of a certificate kind must give the verdict of its checked sibling: validate_X (wall clock) == validate_X_at(now); inspect_X + verify_X[_at] == validate_X_at; verify_ta_ref[_at] == verify_ta[_at]; for kind {ta, ca, ee, detached ee, router} x validity {2000..2100 (current), 2000..2001 (expired), 2100..2101 (future)} x relation {all fine, signed by another key, AKI of another key}; oracle: accept <=> current and relation fine; non-trivial = cases with exactly one violation");
        use rpki::repository::x509::{Time, Validity};
        let y = |yr: i32| Time::utc(yr, 1, 1, 0, 0, 0);
        let ca_res = Res { v4: Claim::Blocks(vec![(0x0a00_0000, 0x0aff_ffff)]), v6: Claim::Missing, asn: Claim::Blocks(vec![(64496, 64511)]) };
        let ca = valid_ca(&signer, &ta, TA_KEY, CA_KEY, ca_res.clone());
        let mut cases = Vec::new();
        for kind in 0..5 { for win in 0..3 { for rel in 0..3 { cases.push((kind, win, rel)) } } }
        cases.par_iter().for_each(|&(kind, win, rel)| {
            let (k, detached) = match kind { 0 => (Kind::Ta, false), 1 => (Kind::Ca, false), 2 => (Kind::Ee, false), 3 => (Kind::Ee, true), _ => (Kind::Router, false) };
            let res = match k {
                Kind::Ta => Res::all(),
                Kind::Router => Res { v4: Claim::Missing, v6: Claim::Missing, asn: Claim::Blocks(vec![(64500, 64500)]) },
                _ => Res { v4: Claim::Blocks(vec![(0x0a00_0000, 0x0a00_00ff)]), v6: Claim::Missing, asn: Claim::Blocks(vec![(64500, 64501)]) },
            };
            let mut spec = if k == Kind::Ta { Spec::ta(TA_KEY, res) } else { Spec::issued(k, LEAF_KEY, CA_KEY, signer.ski(CA_KEY), res, Overclaim::Refuse) };
            spec.validity = match win { 0 => Validity::new(y(2000), y(2100)), 1 => Validity::new(y(2000), y(2001)), _ => Validity::new(y(2100), y(2101)) };
            match rel { 1 => spec.signing_key = OTHER_KEY, 2 => spec.aki = Some(signer.ski(OTHER_KEY)), _ => {} }
            let der = build_cert_der(&signer, &spec);
            let dec = || Cert::decode(der.as_slice()).expect("decodes");
            let want = win == 0 && rel == 0;
            if (win != 0) as u8 + (rel != 0) as u8 == 1 { sp.nontrivial(1) }
            let wit = |ep: &str| format!("kind={}{} window={} relation={} entry={ep}", kind_name(k), if detached { "(detached)" } else { "" }, ["current", "expired", "future"][win], ["fine", "signed-by-other", "aki-other"][rel]);
            let now = Time::now();
            let mut verdicts: Vec<(&str, Result<bool, String>)> = Vec::new();
            match (k, detached) {
                (Kind::Ta, _) => {
                    verdicts.push(("validate_ta", guard(|| dec().validate_ta(tal(), true).is_ok())));
                    verdicts.push(("validate_ta_at(now)", guard(|| dec().validate_ta_at(tal(), true, now).is_ok())));
                    verdicts.push(("inspect_ta+verify_ta", guard(|| { let c = dec(); c.inspect_ta(true).is_ok() && c.verify_ta(tal(), true).is_ok() })));
                    verdicts.push(("inspect_ta+verify_ta_at(now)", guard(|| { let c = dec(); c.inspect_ta(true).is_ok() && c.verify_ta_at(tal(), true, now).is_ok() })));
                    verdicts.push(("inspect_ta+verify_ta_ref", guard(|| { let c = dec(); c.inspect_ta(true).is_ok() && c.verify_ta_ref(true).is_ok() })));
                    verdicts.push(("inspect_ta+verify_ta_ref_at(now)", guard(|| { let c = dec(); c.inspect_ta(true).is_ok() && c.verify_ta_ref_at(true, now).is_ok() })));
                }
                (Kind::Ca, _) => {
                    verdicts.push(("validate_ca", guard(|| dec().validate_ca(&ca, true).is_ok())));
                    verdicts.push(("validate_ca_at(now)", guard(|| dec().validate_ca_at(&ca, true, now).is_ok())));
                    verdicts.push(("inspect_ca+verify_ca", guard(|| { let c = dec(); c.inspect_ca(true).is_ok() && c.verify_ca(&ca, true).is_ok() })));
                    verdicts.push(("inspect_ca+verify_ca_at(now)", guard(|| { let c = dec(); c.inspect_ca(true).is_ok() && c.verify_ca_at(&ca, true, now).is_ok() })));
                }
                (Kind::Ee, false) => {
                    verdicts.push(("validate_ee", guard(|| dec().validate_ee(&ca, true).is_ok())));
                    verdicts.push(("validate_ee_at(now)", guard(|| dec().validate_ee_at(&ca, true, now).is_ok())));
                    verdicts.push(("inspect_ee+verify_ee", guard(|| { let c = dec(); c.inspect_ee(true).is_ok() && c.verify_ee(&ca, true).is_ok() })));
                    verdicts.push(("inspect_ee+verify_ee_at(now)", guard(|| { let c = dec(); c.inspect_ee(true).is_ok() && c.verify_ee_at(&ca, true, now).is_ok() })));
                }
                (Kind::Ee, true) => {
                    verdicts.push(("validate_detached_ee", guard(|| dec().validate_detached_ee(&ca, true).is_ok())));
                    verdicts.push(("validate_detached_ee_at(now)", guard(|| dec().validate_detached_ee_at(&ca, true, now).is_ok())));
                    verdicts.push(("inspect_detached_ee+verify_ee", guard(|| { let c = dec(); c.inspect_detached_ee(true).is_ok() && c.verify_ee(&ca, true).is_ok() })));
                }
                _ => {
                    verdicts.push(("validate_router", guard(|| dec().validate_router(&ca, true).is_ok())));
                    verdicts.push(("validate_router_at(now)", guard(|| dec().validate_router_at(&ca, true, now).is_ok())));
                    verdicts.push(("inspect_router+verify_router", guard(|| { let c = dec(); c.inspect_router(true).is_ok() && c.verify_router(&ca, true).is_ok() })));
                    verdicts.push(("inspect_router+verify_router_at(now)", guard(|| { let c = dec(); c.inspect_router(true).is_ok() && c.verify_router_at(&ca, true, now).is_ok() })));
                }
            }
            // the pieces: verify_validity, verify_issuer_claim, verify_signature each decide their own condition
            if k != Kind::Ta {
                let c = dec();
                verdicts.push(("verify_validity(now) [window]", guard(|| c.verify_validity(now).is_ok() == (win == 0)).map(|ok| if ok { want } else { !want })));
                verdicts.push(("verify_issuer_claim [aki]", guard(|| c.verify_issuer_claim(&ca, true).is_ok() == (rel != 2)).map(|ok| if ok { want } else { !want })));
                verdicts.push(("verify_signature [key]", guard(|| c.verify_signature(&ca, true).is_ok() == (rel != 1)).map(|ok| if ok { want } else { !want })));
            }
            for (ep, v) in verdicts {
                sp.eval();
                match v {
                    Err(p) => ctx.fail("C01.entrypoints.nopanic", wit(ep), p),
                    Ok(got) => { sp.outcome(if got { "accepted" } else { "rejected" });
                        if got != want { ctx.fail(if want { "C01.entrypoints.accept" } else { "C01.entrypoints.reject" }, wit(ep), format!("entry point says {got}, model {want}")) } }
                }
            }
        });
        sp.sample_str(|| "kind=ee window=expired relation=fine entry=validate_ee -> rejected".into());
        sp.done(true, "5 kinds x 3 windows x 3 relations x every public validation entry point");
    }

    //---------------------------------------------------------------- trust anchors
    {
        let sp = ctx.space("ta",
            "self-signed TA: per-family resources {blocks, inherit, missing} (all 27 combinations) x signed by {own key, other key} x AKI {absent, own SKI, other SKI} x SKI {hash, wrong} x 10 instants (incl. 1 ns outside either end); oracle: accept <=> self-signature verifies and no family inherits and at least one family present (profile) and AKI absent-or-own and SKI == hash and time inside; non-trivial = exactly one condition violated");
        let mut cases = Vec::new();
        for r4 in 0..3 { for r6 in 0..3 { for ra in 0..3 { for sk in 0..2 { for aki in 0..3 { for ski in 0..2 { cases.push((r4, r6, ra, sk, aki, ski)) } } } } } }
        let nb = T0 - 1000; let na = T0 + 1000;
        cases.par_iter().for_each(|&(r4, r6, ra, sk, aki, ski)| {
            let pick = |c: i32, blocks: Claim| match c { 0 => blocks, 1 => Claim::Inherit, _ => Claim::Missing };
            let res = Res { v4: pick(r4, Claim::Blocks(vec![(0, u32::MAX as u128)])), v6: pick(r6, Claim::Blocks(vec![(0, u128::MAX)])), asn: pick(ra, Claim::Blocks(vec![(0, u32::MAX as u128)])) };
            let mut spec = Spec::ta(TA_KEY, res);
            spec.validity = rpki::repository::x509::Validity::new(time(nb), time(na));
            spec.signing_key = if sk == 0 { TA_KEY } else { OTHER_KEY };
            spec.aki = match aki { 0 => None, 1 => Some(signer.ski(TA_KEY)), _ => Some(signer.ski(OTHER_KEY)) };
            if ski == 1 { spec.ski_override = Some(signer.ski(5)) }
            let der = build_cert_der(&signer, &spec);
            let present = [r4, r6, ra].iter().any(|c| *c != 2);
            for (tn, t, tt) in instants(nb, na) {
                sp.eval();
                let wit = || format!("res=({r4},{r6},{ra}) [0=blocks,1=inherit,2=missing] signed_by={} aki={} ski={} t={tn}", ["self", "other"][sk], ["absent", "own", "other"][aki], ["hash", "wrong"][ski]);
                let conds = [sk == 0, ![r4, r6, ra].contains(&1), present, aki != 2, ski == 0, t];
                let nviol = conds.iter().filter(|x| !**x).count();
                if nviol == 1 { sp.nontrivial(1) }
                let want = nviol == 0;
                let r = guard(|| match Cert::decode(der.as_slice()) {
                    Ok(c) => c.validate_ta_at(tal(), true, tt).map(|_| ()).map_err(|e| e.to_string()),
                    Err(e) => Err(format!("decode: {e}")),
                });
                match r {
                    Err(p) => ctx.fail("C01.ta.nopanic", wit(), p),
                    Ok(r) => {
                        sp.outcome(if r.is_ok() { "accepted" } else { "rejected" });
                        if r.is_ok() != want { ctx.fail(if want { "C01.ta.accept" } else { "C01.ta.reject" }, wit(), format!("conditions {conds:?}; library {r:?}")) }
                    }
                }
            }
        });
        sp.sample_str(|| "res=(0,1,0) signed_by=self aki=absent ski=hash t=inside -> rejected (inherit in TA)".into());
        sp.done(true, "27 resource shapes x 2 x 3 x 2 x 10 instants");
    }

    //---------------------------------------------------------------- depth 3
    {
        let n = ctx.tier.pick(4u32, 5u32);
        let sp = ctx.space("depth3",
            &format!("TA(all) -> CA1(AS subset A, refuse) -> CA2(claim B: inherit|subset, trim) -> leaf(claim C: inherit|subset, refuse|trim) over a {n}-atom AS universe, the leaf being an EE certificate (through validate_ee_at and through validate_detached_ee_at), a CA certificate or a router certificate (blocks only; inherit must be refused): the leaf is validated under the ResourceCert that the EARLIER call validate_ca_at(CA2 under CA1) returned, whose effective resources differ from what CA2's certificate says whenever CA2 inherits or was trimmed; oracle: composed bitmask model; the result is inside CA2's, CA1's and the TA's; non-trivial = all three subsets pairwise different"));
        let ip_fill = Claim::Blocks(vec![(0x0a00_0000, 0x0aff_ffff)]);
        let claims: Vec<LeafClaim> = std::iter::once(LeafClaim::Inherit).chain((1..(1u32 << n)).map(LeafClaim::Blocks)).collect();
        let ca1s: Vec<(u32, ResourceCert)> = (1..(1u32 << n)).map(|a| {
            let r = Res { v4: ip_fill.clone(), v6: Claim::Missing, asn: Claim::Blocks(ranges_of(Fam::As, a, n)) };
            (a, valid_ca(&signer, &ta, TA_KEY, CA_KEY, r))
        }).collect();
        let ca2_ders: Vec<(LeafClaim, Vec<u8>)> = claims.par_iter().map(|&b| {
            let r = Res { v4: Claim::Inherit, v6: Claim::Missing, asn: claim_of(Fam::As, b, n) };
            (b, build_cert_der(&signer, &Spec::issued(Kind::Ca, CA2_KEY, CA_KEY, signer.ski(CA_KEY), r, Overclaim::Trim)))
        }).collect();
        // (kind, through the detached entry point?)
        let routes: [(Kind, bool); 4] = [(Kind::Ee, false), (Kind::Ee, true), (Kind::Ca, false), (Kind::Router, false)];
        let mut leaf_specs = Vec::new();
        for kind in [Kind::Ee, Kind::Ca, Kind::Router] { for mode in [Overclaim::Refuse, Overclaim::Trim] { for &c in &claims { leaf_specs.push((kind, mode, c)) } } }
        let leaf_ders: Vec<(Kind, Overclaim, LeafClaim, Vec<u8>)> = leaf_specs.par_iter().map(|&(kind, mode, c)| {
            let v4 = if kind == Kind::Router { Claim::Missing } else { Claim::Inherit };
            let r = Res { v4, v6: Claim::Missing, asn: claim_of(Fam::As, c, n) };
            (kind, mode, c, build_cert_der(&signer, &Spec::issued(kind, LEAF_KEY, CA2_KEY, signer.ski(CA2_KEY), r, mode)))
        }).collect();
        ca1s.par_iter().for_each(|(a, ca1)| {
            for (b, d2) in &ca2_ders {
                let ca2 = match Cert::decode(d2.as_slice()).unwrap().validate_ca_at(ca1, true, time(T0)) {
                    Ok(x) => x, Err(e) => { ctx.fail("C01.depth3.ca2", format!("A={a:#x} B={b:?}"), e.to_string()); continue }
                };
                let m2 = model(*a, *b, Overclaim::Trim).unwrap();
                for (kind, mode, c, d3) in &leaf_ders { for &(rk, detached) in &routes {
                    if rk != *kind { continue }
                    sp.eval();
                    if let (LeafClaim::Blocks(bb), LeafClaim::Blocks(cc)) = (b, c) { if bb != a && cc != bb && cc != a { sp.nontrivial(1) } }
                    let wit = || format!("A={a:#x} B={b:?} leaf={}{} C={c:?} mode={}", kind_name(*kind), if detached { "(detached)" } else { "" }, mode_name(*mode));
                    // router certificates must carry AS blocks (not inherit): the profile says so
                    let want = if *kind == Kind::Router && !matches!(c, LeafClaim::Blocks(_)) { None } else { model(m2, *c, *mode) };
                    let cert = match Cert::decode(d3.as_slice()) {
                        Ok(c) => c,
                        Err(e) => { if want.is_some() { ctx.fail("C01.depth3.accept", wit(), format!("built certificate does not decode: {e}")) } else { sp.outcome("rejected") } continue }
                    };
                    let got = guard(|| if detached { validate_detached(cert, &ca2, true, time(T0)) } else { validate(*kind, cert, &ca2, true, time(T0)) });
                    match got {
                        Err(p) => ctx.fail("C01.depth3.nopanic", wit(), p),
                        Ok(Err(e)) => { sp.outcome("rejected"); if want.is_some() { ctx.fail("C01.depth3.accept", wit(), e) } }
                        Ok(Ok(rc)) => { sp.outcome("accepted");
                            match (want, rc) {
                                (None, _) => ctx.fail("C01.depth3.reject", wit(), "accepted although the claim exceeds the intermediate CA's effective (inherited / trimmed) resources"),
                                (Some(_), None) => {}   // router certificates: the verdict is all there is
                                (Some(w), Some(rc)) => match mask_of_as(rc.as_resources(), n) {
                                    Ok(m) => {
                                        if m != w { ctx.fail("C01.depth3.result", wit(), format!("result {m:#x} model {w:#x}")) }
                                        if m & !m2 != 0 || m & !a != 0 { ctx.fail("C01.depth3.subset", wit(), format!("result {m:#x} escapes an ancestor (CA2 {m2:#x}, CA1 {a:#x})")) }
                                        if !ca2.v4_resources().contains(rc.v4_resources()) || !ca1.v4_resources().contains(rc.v4_resources()) { ctx.fail("C01.depth3.subset", wit(), "v4 result escapes an ancestor") }
                                    }
                                    Err(e) => ctx.fail("C01.depth3.result", wit(), e),
                                }
                            }
                        }
                    }
                }}
            }
        });
        sp.sample_str(|| "A=0x3 B=Blocks(0x6) leaf=ee C=Inherit mode=refuse -> accepted with mask 0x2".into());
        sp.sample_str(|| "A=0x3 B=Inherit leaf=router C=Blocks(0x4) mode=refuse -> rejected (CA2 effectively holds 0x3)".into());
        sp.done(true, &format!("all (A,B,C,mode) over {n} AS atoms x 4 leaf routes"));
    }

    //---------------------------------------------------------------- bit flips
    {
        let sp = ctx.space("tamper.bitflip",
            "every single-bit flip of the DER of one valid certificate per kind (ta, ca, ee, router), decoded in strict and relaxed mode and validated under the right issuer at a valid time; oracle: rejected at decode or validation, unless neither the to-be-signed octets nor the signature octets changed (framing outside the signed data); non-trivial = every flip (distinct by position)");
        let ca_res = Res { v4: Claim::Blocks(vec![(0x0a00_0000, 0x0aff_ffff)]), v6: Claim::Blocks(vec![(0x2001_0db8u128 << 96, (0x2001_0db8u128 << 96) | ((1u128 << 96) - 1))]), asn: Claim::Blocks(vec![(64496, 64511)]) };
        let ca = valid_ca(&signer, &ta, TA_KEY, CA_KEY, ca_res.clone());
        let seeds: Vec<(Kind, Vec<u8>)> = vec![
            (Kind::Ta, build_cert_der(&signer, &Spec::ta(TA_KEY, Res::all()))),
            (Kind::Ca, build_cert_der(&signer, &Spec::issued(Kind::Ca, CA_KEY, TA_KEY, ta_ski, ca_res.clone(), Overclaim::Refuse))),
            (Kind::Ee, build_cert_der(&signer, &Spec::issued(Kind::Ee, LEAF_KEY, CA_KEY, signer.ski(CA_KEY), Res { v4: Claim::Blocks(vec![(0x0a00_0000, 0x0a00_00ff)]), v6: Claim::Inherit, asn: Claim::Missing }, Overclaim::Refuse))),
            (Kind::Router, build_cert_der(&signer, &Spec::issued(Kind::Router, LEAF_KEY, CA_KEY, signer.ski(CA_KEY), Res { v4: Claim::Missing, v6: Claim::Missing, asn: Claim::Blocks(vec![(64500, 64500)]) }, Overclaim::Refuse))),
        ];
        for (kind, der) in &seeds {
            let issuer = if *kind == Kind::Ca { &ta } else { &ca };
            // bound 0: the unmodified certificate is accepted in both modes
            for strict in [true, false] {
                let c = Cert::decode(der.as_slice()).unwrap();
                if let Err(e) = validate(*kind, c, issuer, strict, time(T0)) {
                    ctx.fail("C01.tamper.baseline", format!("kind={} strict={strict}", kind_name(*kind)), e);
                }
            }
            let orig = Cert::decode(der.as_slice()).unwrap();
            let orig_tbs = orig.to_captured(); // full cert; used only for length
            let _ = orig_tbs;
            // locate TBS and signature octets with the independent TLV reader
            let root = rpki_verif::engine::der::parse_one(der, false).expect("seed parses");
            let tbs = &root.children[0]; let sigbits = &root.children[2];
            let (tbs_a, tbs_b) = (tbs.start, tbs.end());
            let (sig_a, sig_b) = (sigbits.start + sigbits.hdr + 1, sigbits.end());
            let nbits = der.len() * 8;
            (0..nbits).into_par_iter().for_each(|bit| {
                let mut m = der.clone();
                m[bit / 8] ^= 1 << (bit % 8);
                let in_signed = (tbs_a..tbs_b).contains(&(bit / 8)) || (sig_a..sig_b).contains(&(bit / 8));
                for strict in [true, false] {
                    sp.eval();
                    let wit = || format!("kind={} strict={strict} byte={} bit={} region={}", kind_name(*kind), bit / 8, bit % 8, if in_signed { "signed" } else { "framing" });
                    let r = guard(|| {
                        let c = if strict { Cert::decode(m.as_slice()) } else {
                            bcder::Mode::Ber.decode(m.as_slice(), Cert::take_from)
                        };
                        match c { Err(_) => Err("decode".to_string()), Ok(c) => {
                            if *kind == Kind::Ee {
                                // both EE entry points must reject
                                let c2 = c.clone();
                                let a = validate(*kind, c, issuer, strict, time(T0)).is_ok();
                                let b = validate_detached(c2, issuer, strict, time(T0)).is_ok();
                                if a || b { Ok(()) } else { Err("validate".to_string()) }
                            } else { validate(*kind, c, issuer, strict, time(T0)).map(|_| ()).map_err(|_| "validate".to_string()) }
                        } }
                    });
                    match r {
                        Err(p) => ctx.fail("C01.tamper.nopanic", wit(), p),
                        Ok(Err(stage)) => sp.outcome(if stage == "decode" { "rejected-at-decode" } else { "rejected-at-validation" }),
                        Ok(Ok(())) => {
                            if in_signed { ctx.fail("C01.tamper.bitflip", wit(), "a certificate with one flipped bit in its signed octets or signature still validates") }
                            else { sp.outcome("framing-flip-tolerated") }
                        }
                    }
                }
            });
            sp.nontrivial(nbits as u64);
            sp.sample_str(|| format!("kind={} {} octets, tbs=[{tbs_a},{tbs_b}) signature=[{sig_a},{sig_b})", kind_name(*kind), der.len()));
        }
        sp.done(true, "all single-bit flips of 4 seed certificates x 2 decode modes");
    }

    //---------------------------------------------------------------- re-signed deviations
    // Everything below signs what it built with the issuer's real key, so the
    // signature never is what stops a non-conforming certificate: the other
    // conditions of the property have to.
    {
        let ca_res = Res { v4: Claim::Blocks(vec![(0x0a00_0000, 0x0aff_ffff), (0xc000_0200, 0xc000_02ff)]), v6: Claim::Blocks(vec![(0x2001_0db8u128 << 96, (0x2001_0db8u128 << 96) | ((1u128 << 96) - 1))]), asn: Claim::Blocks(vec![(64496, 64511)]) };
        let ca = valid_ca(&signer, &ta, TA_KEY, CA_KEY, ca_res.clone());
        let facts = IssuerFacts {
            ski: signer.ski(CA_KEY).as_slice().to_vec(),
            v4: vec![(0x0a00_0000, 0x0aff_ffff), (0xc000_0200, 0xc000_02ff)],
            v6: vec![(0x2001_0db8u128 << 96, (0x2001_0db8u128 << 96) | ((1u128 << 96) - 1))],
            asn: vec![(64496, 64511)],
        };
        let sub_res = Res { v4: Claim::Blocks(vec![(0x0a00_0000, 0x0a00_ffff), (0xc000_0200, 0xc000_027f)]), v6: Claim::Blocks(vec![(0x2001_0db8u128 << 96, (0x2001_0db8u128 << 96) | ((1u128 << 80) - 1))]), asn: Claim::Blocks(vec![(64500, 64503)]) };
        let seed_of = |kind: Kind, mode: Overclaim| -> Vec<u8> {
            let res = match kind {
                Kind::Ca => sub_res.clone(),
                Kind::Ee => Res { v4: Claim::Blocks(vec![(0x0a00_0000, 0x0a00_00ff)]), v6: Claim::Inherit, asn: Claim::Missing },
                _ => Res { v4: Claim::Missing, v6: Claim::Missing, asn: Claim::Blocks(vec![(64500, 64500)]) },
            };
            build_cert_der(&signer, &Spec::issued(kind, if kind == Kind::Ca { CA2_KEY } else { LEAF_KEY }, CA_KEY, signer.ski(CA_KEY), res, mode))
        };
        let tbs_of = |cert: &[u8]| -> Vec<u8> { let r = rpki_verif::engine::der::parse_one(cert, false).expect("seed parses"); r.children[0].whole(cert).to_vec() };
        // One evaluation: sign, decode in one mode, validate, compare with the reference reader.
        let run = |sp: &rpki_verif::engine::report::Space, oracle_prefix: &str, kind: Kind, tbs: &[u8], must_accept: bool, wit: &dyn Fn(bool) -> String| {
            let cert = sign_tbs(&signer, CA_KEY, tbs);
            for strict in [true, false] {
                sp.eval();
                let r = guard(|| {
                    let c = if strict { Cert::decode(cert.as_slice()) } else { bcder::Mode::Ber.decode(cert.as_slice(), Cert::take_from) };
                    match c { Err(_) => Err("rejected-at-decode"), Ok(c) => validate(kind, c, &ca, strict, time(T0)).map_err(|_| "rejected-at-validation") }
                });
                match r {
                    Err(p) => ctx.fail(&format!("{oracle_prefix}.nopanic"), wit(strict), p),
                    Ok(Err(stage)) => {
                        if must_accept { ctx.fail(&format!("{oracle_prefix}.conforming_accepted"), wit(strict), format!("a conforming certificate is {stage}")) }
                        sp.outcome(stage)
                    }
                    Ok(Ok(rc)) => match check_accepted(&cert, kind, &facts, rc.as_ref(), T0, strict) {
                        Ok(class) => sp.outcome(class),
                        Err((o, d)) => ctx.fail(&format!("{oracle_prefix}.{o}"), wit(strict), format!("{d}; certificate={}", hex(&cert))),
                    },
                }
            }
        };

        {
            let sp = ctx.space("resigned.tbs_deviations",
                "every single deviation (complete operator menu of shared/mutate.rs: tags, lengths, contents, typed values, list shapes, size classes, splices) at every TLV node of the to-be-signed part of one valid certificate per kind (sub-CA, EE, router; thorough: also the trimming-policy sub-CA), the result signed with the issuer's real key, decoded strict and relaxed, validated at T0 under the issuer; oracle: whatever is accepted is read back with the reference reader (engine/certref.rs, no library code) and must carry exactly the issuer's key identifier as AKI, SHA-1(key bits) as SKI, a window containing T0, claims inside the issuer, and the result resources must equal the union of everything claimed (refuse) / its intersection with the issuer (trim) / the issuer's (inherit); non-trivial = every deviation");
            let mut seeds = vec![("ca", Kind::Ca, Overclaim::Refuse), ("ee", Kind::Ee, Overclaim::Refuse), ("router", Kind::Router, Overclaim::Refuse)];
            if ctx.tier.is_thorough() { seeds.push(("ca.trim", Kind::Ca, Overclaim::Trim)); seeds.push(("ee.trim", Kind::Ee, Overclaim::Trim)) }
            for (sname, kind, mode) in seeds {
                let cert = seed_of(kind, mode);
                let tbs = tbs_of(&cert);
                run(&sp, "C01.resigned.baseline", kind, &tbs, true, &|strict| format!("seed={sname} strict={strict} unmodified"));
                let tree = mutate::Tree::parse(&tbs).expect("TBS parses");
                let src = tree.first_of_each_tag();
                let work: Vec<(usize, mutate::Op)> = (0..tree.len()).flat_map(|i| tree.full_menu(i, &src).into_iter().map(move |op| (i, op))).collect();
                work.par_iter().for_each(|&(i, op)| {
                    let m = match guard(|| tree.apply1(&tbs, i, op)) { Ok(m) => m, Err(e) => { ctx.machinery_error(format!("mutate {i} {op:?}: {e}")); return } };
                    if m == tbs { return }
                    sp.nontrivial(1);
                    run(&sp, "C01.resigned", kind, &m, false, &|strict| format!("seed={sname} strict={strict} node={i} op={}", op.name(&tree).replace(' ', "_")));
                });
                sp.sample_str(|| format!("seed={sname}: {} nodes, {} deviations", tree.len(), work.len()));
            }
            sp.done(true, "bound 1: all operators x all nodes of the TBS of 3 (thorough: 5) seed certificates x 2 decode modes");
        }

        if ctx.tier.is_thorough() {
            let sp = ctx.space("resigned.tbs_pairs",
                "thorough only: every pair of deviations (reduced operator menu, one representative per operator class) at two different, non-nested TLV nodes inside the extensions of the sub-CA and the EE seed certificate, re-signed, decoded strict and relaxed, validated; oracle: the reference reader as in resigned.tbs_deviations; non-trivial = every pair");
            for (sname, kind) in [("ca", Kind::Ca), ("ee", Kind::Ee)] {
                let cert = seed_of(kind, Overclaim::Refuse);
                let tbs = tbs_of(&cert);
                let tree = mutate::Tree::parse(&tbs).expect("TBS parses");
                // nodes below the [3] extensions wrapper
                let ext_root = (0..tree.len()).find(|&i| tree.nodes[i].tag == 0xa3).expect("extensions present");
                let ext_end = ext_root + tree.nodes[ext_root].size;
                let singles: Vec<(usize, mutate::Op)> = (ext_root + 2..ext_end).flat_map(|i| tree.reduced_menu(i).into_iter().map(move |op| (i, op))).collect();
                let n = singles.len();
                (0..n).into_par_iter().for_each(|a| {
                    let (i, oi) = singles[a];
                    for &(j, oj) in &singles[a + 1..] {
                        if j < i + tree.nodes[i].size { continue } // same node or nested
                        let m = match guard(|| tree.apply(&tbs, &[(i, oi), (j, oj)])) { Ok(m) => m, Err(e) => { ctx.machinery_error(format!("mutate pair: {e}")); continue } };
                        sp.nontrivial(1);
                        run(&sp, "C01.resigned", kind, &m, false, &|strict| format!("seed={sname} strict={strict} node={i} op={} node2={j} op2={}", oi.name(&tree).replace(' ', "_"), oj.name(&tree).replace(' ', "_")));
                    }
                });
                sp.sample_str(|| format!("seed={sname}: {} single deviations inside the extensions", n));
            }
            sp.done(true, "bound 2: all pairs over the reduced menu at non-nested nodes of the extensions of 2 seed certificates x 2 decode modes");
        }

        {
            use rpki_verif::engine::{certref as cr, der};
            let sp = ctx.space("resigned.resource_shapes",
                "the resource extensions of a sub-CA and an EE certificate replaced by every sequence of <= 3 entries over {v4 inside A, v4 inside B, v4 outside, v4 inherit, v6 inside, v6 outside, v6 inherit} (one extension) and every pair of one-entry extensions, resp. <= 3 entries over {asnum inside A, asnum inside B, asnum outside, asnum inherit, rdi blocks, rdi inherit}; both overclaim policies; re-signed; oracle: reference reader as above (result = union of all entries of a family), and the shapes with at most one entry per family, v4 before v6, everything inside the issuer must be accepted; non-trivial = every shape");
            let v4e = |items: Option<&[der::IpItem]>| der::seq(&[der::octets(&[0, 1]), match items { None => der::null(), Some(v) => der::seq(&v.iter().map(|i| match i { der::IpItem::Prefix(a, l) => der::ip_prefix_bits(*a, *l, 32), der::IpItem::Range(a, b) => der::ip_range(*a, *b, 32) }).collect::<Vec<_>>()) }]);
            let v6e = |items: Option<&[der::IpItem]>| der::seq(&[der::octets(&[0, 2]), match items { None => der::null(), Some(v) => der::seq(&v.iter().map(|i| match i { der::IpItem::Prefix(a, l) => der::ip_prefix_bits(*a, *l, 128), der::IpItem::Range(a, b) => der::ip_range(*a, *b, 128) }).collect::<Vec<_>>()) }]);
            // (name, family 4|6, inside issuer?, encoding)
            let ip_alpha: Vec<(&str, u8, bool, Vec<u8>)> = vec![
                ("v4A", 4, true, v4e(Some(&[der::IpItem::Prefix(0x0a00_0000, 16)]))),
                ("v4B", 4, true, v4e(Some(&[der::IpItem::Prefix(0xc000_0200, 24)]))),
                ("v4out", 4, false, v4e(Some(&[der::IpItem::Prefix(0x0b00_0000, 8)]))),
                ("v4inh", 4, true, v4e(None)),
                ("v6A", 6, true, v6e(Some(&[der::IpItem::Prefix(0x2001_0db8u128 << 96, 48)]))),
                ("v6out", 6, false, v6e(Some(&[der::IpItem::Prefix(0x2001_0db9u128 << 96, 32)]))),
                ("v6inh", 6, true, v6e(None)),
            ];
            let asb = |items: Option<&[der::AsItem]>| match items { None => der::null(), Some(v) => der::seq(&v.iter().map(|i| match i { der::AsItem::Id(a) => der::int_u(*a), der::AsItem::Range(a, b) => der::seq(&[der::int_u(*a), der::int_u(*b)]) }).collect::<Vec<_>>()) };
            let as_alpha: Vec<(&str, u8, bool, Vec<u8>)> = vec![
                ("asA", 0, true, der::ctx(0, true, &asb(Some(&[der::AsItem::Id(64500)])))),
                ("asB", 0, true, der::ctx(0, true, &asb(Some(&[der::AsItem::Range(64497, 64498)])))),
                ("asout", 0, false, der::ctx(0, true, &asb(Some(&[der::AsItem::Id(65000)])))),
                ("asinh", 0, true, der::ctx(0, true, &asb(None))),
                ("rdi", 1, true, der::ctx(1, true, &asb(Some(&[der::AsItem::Id(64500)])))),
                ("rdiinh", 1, true, der::ctx(1, true, &asb(None))),
            ];
            let seqs = |n: usize| -> Vec<Vec<usize>> {
                let mut out = Vec::new();
                for len in 1..=3usize { for k in 0..n.pow(len as u32) { let mut v = Vec::new(); let mut x = k; for _ in 0..len { v.push(x % n); x /= n } out.push(v) } }
                out
            };
            for kind in [Kind::Ca, Kind::Ee] {
                for mode in [Overclaim::Refuse, Overclaim::Trim] {
                    let spec = Spec::issued(kind, if kind == Kind::Ca { CA2_KEY } else { LEAF_KEY }, CA_KEY, signer.ski(CA_KEY), sub_res.clone(), mode);
                    let tbs = tbs_of(&build_cert_der(&signer, &spec));
                    // (label, is-ip, list of extension bodies (each a list of entries))
                    let mut work: Vec<(String, bool, Vec<Vec<usize>>)> = Vec::new();
                    for s in seqs(ip_alpha.len()) { work.push((s.iter().map(|i| ip_alpha[*i].0).collect::<Vec<_>>().join(","), true, vec![s])) }
                    for a in 0..ip_alpha.len() { for b in 0..ip_alpha.len() { work.push((format!("{}|{}", ip_alpha[a].0, ip_alpha[b].0), true, vec![vec![a], vec![b]])) } }
                    for s in seqs(as_alpha.len()) { work.push((s.iter().map(|i| as_alpha[*i].0).collect::<Vec<_>>().join(","), false, vec![s])) }
                    for a in 0..as_alpha.len() { for b in 0..as_alpha.len() { work.push((format!("{}|{}", as_alpha[a].0, as_alpha[b].0), false, vec![vec![a], vec![b]])) } }
                    work.par_iter().for_each(|(label, is_ip, exts)| {
                        let alpha = if *is_ip { &ip_alpha } else { &as_alpha };
                        let m = cr::map_extensions(&tbs, &mut |oid, whole| {
                            let hit = if *is_ip { oid == cr::OID_IP || oid == cr::OID_IP_V2 } else { oid == cr::OID_AS || oid == cr::OID_AS_V2 };
                            if !hit { return vec![whole.to_vec()] }
                            exts.iter().map(|e| cr::extension(oid, true, &der::seq(&e.iter().map(|i| alpha[*i].3.clone()).collect::<Vec<_>>()))).collect()
                        });
                        // conforming: one extension, each family (resp. asnum) at most once, v4 before v6, no rdi, all inside
                        let flat: Vec<usize> = exts.iter().flatten().copied().collect();
                        let fams: Vec<u8> = flat.iter().map(|i| alpha[*i].1).collect();
                        let mut sorted = fams.clone(); sorted.sort(); sorted.dedup();
                        let conforming = exts.len() == 1 && sorted == fams && flat.iter().all(|i| alpha[*i].2) && (*is_ip || fams == [0]);
                        sp.nontrivial(1);
                        run(&sp, "C01.shapes", kind, &m, conforming, &|strict| format!("kind={} mode={} strict={strict} {}={label}", kind_name(kind), mode_name(mode), if *is_ip { "ip" } else { "as" }));
                    });
                    sp.sample_str(|| format!("kind={} mode={}: {} shapes", kind_name(kind), mode_name(mode), work.len()));
                }
            }
            sp.done(true, "all entry sequences of length <= 3 and all pairs of one-entry extensions over 7 (IP) / 6 (AS) entry values x 2 kinds x 2 policies x 2 decode modes");
        }

        {
            // Block LISTS inside one resource-extension entry, as a foreign encoder may write
            // them: the relation between consecutive blocks (nested, overlapping, touching,
            // duplicate, ascending, descending, reaching outside the issuer) is the dimension.
            use rpki_verif::engine::{certref as cr, der};
            let sp = ctx.space("resigned.block_lists",
                "the v4 resp. AS entry of the resource extension of a sub-CA and an EE certificate replaced by every list of <= 2 (quick: plus every list of 3 over a 10-block sub-alphabet; thorough: every list of <= 3) blocks (a, b), a <= b, over 7 points (both ends of an issuer block, interior points one apart and far apart, the first number outside), i.e. every relation between consecutive list entries: disjoint, touching, overlapping, nested (inner block ending before / at the end of the outer), duplicate, in ascending and descending order; single numbers written as id / one-address prefix and, second spelling, as range a..a resp. prefix-expressible blocks as ranges; both overclaim policies; re-signed with the issuer's key; decoded strict and relaxed; oracle: the reference reader - whatever is accepted must yield exactly the union of the listed blocks (refuse; and that union must lie inside the issuer), its intersection with the issuer (trim), and canonical lists (ascending, disjoint, non-touching, inside the issuer, canonical spelling) must be accepted; non-trivial = lists of two or more blocks that are not canonical");
            let as_pts: [u128; 7] = [64496, 64497, 64500, 64501, 64510, 64511, 64512];
            let v4_pts: [u128; 7] = [0x0a00_0000, 0x0a00_00ff, 0x0a00_0100, 0x0a00_ffff, 0x0a01_0000, 0x0aff_ffff, 0x0b00_0000];
            let blocks_of = |p: &[u128; 7]| -> Vec<(u128, u128)> { let mut v = Vec::new(); for i in 0..7 { for j in i..7 { v.push((p[i], p[j])) } } v };
            let is_prefix = |a: u128, b: u128| -> Option<u8> { let n = b - a + 1; if n.is_power_of_two() && a % n == 0 { Some(32 - n.trailing_zeros() as u8) } else { None } };
            let enc_as = |l: &[(u128, u128)], alt: bool| -> Vec<u8> {
                der::ctx(0, true, &der::seq(&l.iter().map(|&(a, b)| if a == b && !alt { der::int_u(a) } else { der::seq(&[der::int_u(a), der::int_u(b)]) }).collect::<Vec<_>>()))
            };
            let enc_v4 = |l: &[(u128, u128)], alt: bool| -> Vec<u8> {
                der::seq(&[der::octets(&[0, 1]), der::seq(&l.iter().map(|&(a, b)| match is_prefix(a, b) { Some(len) if !alt => der::ip_prefix_bits(a, len, 32), _ => der::ip_range(a, b, 32) }).collect::<Vec<_>>())])
            };
            let canonical = |l: &[(u128, u128)], issuer: &[(u128, u128)]| -> bool { cr::normalise(l) == l && cr::subset(l, issuer) };
            for (fam, pts) in [("as", &as_pts), ("v4", &v4_pts)] {
                let blocks = blocks_of(pts);
                // the sub-alphabet for lists of three: blocks over the points 0, 1, 3, 5 (ends and two interior points)
                let small: Vec<(u128, u128)> = { let q = [pts[0], pts[1], pts[3], pts[5]]; let mut v = Vec::new(); for i in 0..4 { for j in i..4 { v.push((q[i], q[j])) } } v };
                let mut lists: Vec<(Vec<(u128, u128)>, bool)> = Vec::new();
                for &a in &blocks { for alt in [false, true] { lists.push((vec![a], alt)) } }
                for &a in &blocks { for &b in &blocks { for alt in [false, true] { lists.push((vec![a, b], alt)) } } }
                let three = if ctx.tier.is_thorough() { &blocks } else { &small };
                for &a in three { for &b in three { for &c in three { lists.push((vec![a, b, c], false)) } } }
                let issuer = if fam == "as" { &facts.asn } else { &facts.v4 };
                for kind in [Kind::Ca, Kind::Ee] {
                    for mode in [Overclaim::Refuse, Overclaim::Trim] {
                        let spec = Spec::issued(kind, if kind == Kind::Ca { CA2_KEY } else { LEAF_KEY }, CA_KEY, signer.ski(CA_KEY), sub_res.clone(), mode);
                        let tbs = tbs_of(&build_cert_der(&signer, &spec));
                        lists.par_iter().for_each(|(l, alt)| {
                            let body = if fam == "as" { der::seq(&[enc_as(l, *alt)]) } else { der::seq(&[enc_v4(l, *alt)]) };
                            let m = cr::map_extensions(&tbs, &mut |oid, whole| {
                                let hit = if fam == "as" { oid == cr::OID_AS || oid == cr::OID_AS_V2 } else { oid == cr::OID_IP || oid == cr::OID_IP_V2 };
                                if hit { vec![cr::extension(oid, true, &body)] } else { vec![whole.to_vec()] }
                            });
                            let canon = canonical(l, issuer);
                            if l.len() >= 2 && cr::normalise(l) != *l { sp.nontrivial(1) }
                            run(&sp, "C01.blocklists", kind, &m, canon && !*alt, &|strict| format!("kind={} mode={} strict={strict} family={fam} alt_spelling={alt} list={}", kind_name(kind), mode_name(mode), l.iter().map(|(a, b)| format!("{a:#x}-{b:#x}")).collect::<Vec<_>>().join(",")));
                        });
                    }
                }
                sp.sample_str(|| format!("family={fam}: {} blocks, {} lists x 2 kinds x 2 policies x 2 decode modes", blocks.len(), lists.len()));
            }
            sp.done(true, if ctx.tier.is_thorough() { "all lists of <= 3 blocks over 28 blocks (7 points) x 2 families x 2 kinds x 2 policies x 2 decode modes; 2 spellings for lists of <= 2" } else { "all lists of <= 2 blocks over 28 blocks (7 points) in 2 spellings, all lists of 3 over 10 blocks, x 2 families x 2 kinds x 2 policies x 2 decode modes" });
        }

        {
            use rpki_verif::engine::{certref as cr, der};
            let sp = ctx.space("resigned.key_identifiers",
                "the key identifier inside the SKI resp. AKI extension of a sub-CA, EE and router certificate replaced by every member of {right, right minus last octet, right minus first octet, right + 00, right + right, right + 107 octets, last bit flipped, first bit flipped, empty, other key's} in the primitive and (AKI, SKI) two constructed-string spellings, plus AKI without keyIdentifier and the AKI extension removed altogether; the subject's key being a key of its own, the issuer's own key or the trust anchor's key (sub-CA, EE); re-signed; oracle: accepted only if the identifier is exactly the right 20 octets (reference reader), and the right one in primitive form is accepted; non-trivial = every spelling");
            // the subject's key as a dimension: an ordinary key of its own, the ISSUER's own key (subject key
            // identifier == issuer's key identifier, the shape of a self-signed certificate) and the trust anchor's key
            let mut variants: Vec<(Kind, &str, usize)> = vec![(Kind::Ca, "own", CA2_KEY), (Kind::Ee, "own", LEAF_KEY), (Kind::Router, "own", LEAF_KEY)];
            for kind in [Kind::Ca, Kind::Ee] { variants.push((kind, "issuers", CA_KEY)); variants.push((kind, "trust-anchors", TA_KEY)) }
            for (kind, subj_label, subj) in variants {
                let res = match kind { Kind::Router => Res { v4: Claim::Missing, v6: Claim::Missing, asn: Claim::Blocks(vec![(64500, 64500)]) }, _ => sub_res.clone() };
                let cert = build_cert_der(&signer, &Spec::issued(kind, subj, CA_KEY, signer.ski(CA_KEY), res, Overclaim::Refuse));
                let tbs = tbs_of(&cert);
                let right_ski = cr::read_cert(&cert).expect("seed reads").ski[0].clone();
                let right_aki = facts.ski.clone();
                for which in ["ski", "aki"] {
                    let right = if which == "ski" { right_ski.clone() } else { right_aki.clone() };
                    let other = signer.ski(OTHER_KEY).as_slice().to_vec();
                    let mut vals: Vec<(&str, Vec<u8>)> = vec![
                        ("right", right.clone()), ("minus_last", right[..19].to_vec()), ("minus_first", right[1..].to_vec()),
                        ("plus_00", [right.clone(), vec![0]].concat()), ("twice", [right.clone(), right.clone()].concat()),
                        ("plus_107", [right.clone(), vec![0xa5; 107]].concat()),
                        ("last_bit", { let mut r = right.clone(); r[19] ^= 1; r }), ("first_bit", { let mut r = right.clone(); r[0] ^= 0x80; r }),
                        ("empty", vec![]), ("other_key", other),
                    ];
                    if which == "aki" { vals.push(("absent", vec![])); vals.push(("extension_removed", vec![])) }
                    for (vname, val) in &vals {
                        for spelling in ["prim", "cons2", "cons_tail"] {
                            let tag_p = if which == "ski" { 0x04u8 } else { 0x80 };
                            let kid = match spelling {
                                "prim" => der::tlv(tag_p, val),
                                "cons2" => { let h = val.len() / 2; der::tlv(tag_p | 0x20, &[der::octets(&val[..h]), der::octets(&val[h..])].concat()) }
                                _ => { let h = val.len().min(20); der::tlv(tag_p | 0x20, &[der::octets(&val[..h]), der::octets(&val[h..])].concat()) }
                            };
                            if (*vname == "absent" || *vname == "extension_removed") && spelling != "prim" { continue }
                            let body = if which == "ski" { kid } else if *vname == "absent" { der::seq(&[]) } else { der::seq(&[kid]) };
                            let m = cr::map_extensions(&tbs, &mut |oid, whole| {
                                if (which == "ski" && oid == cr::OID_SKI) || (which == "aki" && oid == cr::OID_AKI) { if *vname == "extension_removed" { vec![] } else { vec![cr::extension(oid, false, &body)] } } else { vec![whole.to_vec()] }
                            });
                            sp.nontrivial(1);
                            // only the ordinary subject key is demanded to be accepted (a certificate for the issuer's own key has the shape of a self-signed one)
                            run(&sp, "C01.keyid", kind, &m, *vname == "right" && spelling == "prim" && subj_label == "own", &|strict| format!("kind={} subject_key={subj_label} strict={strict} ext={which} value={vname} spelling={spelling}", kind_name(kind)));
                            // the right identifier in DER form is what the seed itself carries: it must be accepted
                            if *vname == "right" && spelling == "prim" && m != tbs { ctx.machinery_error(format!("kind={} ext={which}: rebuilding the extension with its own value changes the TBS", kind_name(kind))) }
                        }
                    }
                }
                if subj_label == "own" { run(&sp, "C01.keyid.baseline", kind, &tbs, true, &|strict| format!("kind={} strict={strict} unmodified", kind_name(kind))); }
            }
            sp.done(true, "10 (AKI: 12, incl. the extension removed) identifier values x 3 spellings x {SKI, AKI} x 7 (kind, subject key) variants x 2 decode modes");
        }
    }

    //---------------------------------------------------------------- history
    {
        let sp = ctx.space("history.independent",
            "sequences of validations on ONE fresh OS thread: every ordered pair (thorough: triple) of the 47 operations {sub-CA, EE, router leaf in the variants good / signed by another key / AKI of another key / wrong SKI / expired} x offered issuer {the issuer, another CA, a CA certificate with ANOTHER key that carries the issuer's SKI value (obtained through verify_ca_at, which does not compare the SKI with the key)} plus {good TA, TA signed by another key}; oracle (differential, no expected values): the observation of the last operation - verdict and attached resources - equals the observation of the same operation evaluated first thing on its own fresh thread; what happened before on the thread must not matter; non-trivial = sequences whose last two operations differ");
        let ca_res = Res { v4: Claim::Blocks(vec![(0x0a00_0000, 0x0aff_ffff)]), v6: Claim::Missing, asn: Claim::Blocks(vec![(64496, 64511)]) };
        let ca = valid_ca(&signer, &ta, TA_KEY, CA_KEY, ca_res.clone());
        let other_ca = valid_ca(&signer, &ta, TA_KEY, OTHER_KEY, ca_res.clone());
        // same SKI value as `ca`, different key
        let twin = {
            let mut spec = Spec::issued(Kind::Ca, CA2_KEY, TA_KEY, ta_ski, ca_res.clone(), Overclaim::Refuse);
            spec.ski_override = Some(signer.ski(CA_KEY));
            guard(|| build_cert(&signer, &spec).verify_ca_at(&ta, true, time(T0)).ok()).ok().flatten()
        };
        if twin.is_none() { ctx.assume("history: verify_ca_at refuses a CA certificate whose SKI is not the hash of its key; the same-SKI-different-key issuer is left out") }
        let mut ops: Vec<(String, Kind, Vec<u8>, usize)> = Vec::new(); // (name, kind, der, issuer index)
        for kind in [Kind::Ca, Kind::Ee, Kind::Router] {
            for variant in 0..5 {
                let res = if kind == Kind::Router { Res { v4: Claim::Missing, v6: Claim::Missing, asn: Claim::Blocks(vec![(64500, 64500)]) } } else { Res { v4: Claim::Blocks(vec![(0x0a00_0000, 0x0a00_00ff)]), v6: Claim::Missing, asn: Claim::Blocks(vec![(64500, 64501)]) } };
                let mut spec = Spec::issued(kind, LEAF_KEY, CA_KEY, signer.ski(CA_KEY), res, Overclaim::Refuse);
                match variant { 1 => spec.signing_key = OTHER_KEY, 2 => spec.aki = Some(signer.ski(OTHER_KEY)), 3 => spec.ski_override = Some(signer.ski(5)), 4 => spec.validity = rpki::repository::x509::Validity::new(time(T0 - 2000), time(T0 - 1000)), _ => {} }
                let der = build_cert_der(&signer, &spec);
                for issuer in 0..3 {
                    if issuer == 2 && twin.is_none() { continue }
                    ops.push((format!("{}.{}@{}", kind_name(kind), ["good", "signed-by-other", "aki-other", "ski-wrong", "expired"][variant], ["issuer", "other-ca", "same-ski-twin"][issuer]), kind, der.clone(), issuer));
                }
            }
        }
        ops.push(("ta.good".into(), Kind::Ta, build_cert_der(&signer, &Spec::ta(TA_KEY, Res::all())), 0));
        ops.push(("ta.signed-by-other".into(), Kind::Ta, { let mut sp_ = Spec::ta(TA_KEY, Res::all()); sp_.signing_key = OTHER_KEY; build_cert_der(&signer, &sp_) }, 0));
        let issuers: Vec<&ResourceCert> = match &twin { Some(t) => vec![&ca, &other_ca, t], None => vec![&ca, &other_ca] };
        let observe = |i: usize| -> String {
            let (_, kind, der, issuer) = &ops[i];
            match guard(|| {
                let c = match Cert::decode(der.as_slice()) { Ok(c) => c, Err(e) => return format!("decode error {e}") };
                match validate(*kind, c, issuers[*issuer], true, time(T0)) {
                    Ok(Some(rc)) => format!("accepted v4={:x?} v6={:x?} as={:?}", rc.v4_resources().iter().map(|b| (b.min().to_bits(), b.max().to_bits())).collect::<Vec<_>>(), rc.v6_resources().iter().map(|b| (b.min().to_bits(), b.max().to_bits())).collect::<Vec<_>>(), rc.as_resources().iter().map(|b| (b.min().into_u32(), b.max().into_u32())).collect::<Vec<_>>()),
                    Ok(None) => "accepted".into(),
                    Err(_) => "rejected".into(),
                }
            }) { Ok(s) => s, Err(p) => format!("panic {p}") }
        };
        // a sequence runs on a thread of its own; returns the observation of its last operation
        let run_seq = |seq: &[usize]| -> String {
            std::thread::scope(|sc| sc.spawn(|| { let mut last = String::new(); for &i in seq { last = observe(i) } last }).join().unwrap_or_else(|_| "thread died".into()))
        };
        let fresh: Vec<String> = (0..ops.len()).map(|i| run_seq(&[i])).collect();
        for f in &fresh { sp.outcome(if f.starts_with("accepted") { "subject-accepted-when-fresh" } else { "subject-rejected-when-fresh" }) }
        sp.evals(ops.len() as u64);
        let n = ops.len();
        let mut seqs: Vec<Vec<usize>> = Vec::new();
        for a in 0..n { for b in 0..n { seqs.push(vec![a, b]) } }
        if ctx.tier.is_thorough() { for a in 0..n { for b in 0..n { for c in 0..n { seqs.push(vec![a, b, c]) } } } }
        seqs.par_iter().for_each(|seq| {
            sp.eval();
            let last = *seq.last().unwrap();
            if seq[seq.len() - 2] != last { sp.nontrivial(1) }
            let got = run_seq(seq);
            if got != fresh[last] {
                ctx.fail("C01.history.independent", format!("sequence={}", seq.iter().map(|i| ops[*i].0.as_str()).collect::<Vec<_>>().join(",")),
                    format!("last operation gives `{got}` after this history, `{}` on a fresh thread", fresh[last]));
            }
        });
        // running twice gives the same result (the harness owns every choice)
        let again: Vec<String> = (0..ops.len()).map(|i| run_seq(&[i])).collect();
        if again != fresh { ctx.machinery_error("history: fresh-thread observations differ between two runs") }
        sp.sample_str(|| format!("{} operations, {} sequences; e.g. {} -> {}", n, seqs.len(), ops[0].0, fresh[0]));
        sp.done(true, if ctx.tier.is_thorough() { "all ordered pairs and triples of 47 operations" } else { "all ordered pairs of 47 operations" });
    }

    //---------------------------------------------------------------- history: number of distinct keys
    {
        use rpki::crypto::{PublicKey, RpkiSignature, RpkiSignatureAlgorithm};
        let sp = ctx.space("history.key_scale",
            "the NUMBER of distinct verification keys a thread has used as a dimension (per-thread key caches have a capacity): on one fresh OS thread a good child of issuer X is validated, then N signature checks with N DISTINCT well-formed RSA public keys (a pool key's modulus with a counter written into its middle), then a good child of another CA P (in the second order: P first, then the N keys), then the subjects {certificate signed by P's key but naming X as issuer and carrying X's key identifier as AKI; good child of X; good child of P}; N = 0..=130, 254..=258, 510..=514 (thorough: also 1022..=1026, 4094..=4098); oracle: the model's verdicts (rejected, accepted, accepted) whatever N; non-trivial = every (N, order, subject)");
        let ca_res = Res { v4: Claim::Blocks(vec![(0x0a00_0000, 0x0aff_ffff)]), v6: Claim::Missing, asn: Claim::Blocks(vec![(64496, 64511)]) };
        let leaf_res = Res { v4: Claim::Blocks(vec![(0x0a00_0000, 0x0a00_00ff)]), v6: Claim::Missing, asn: Claim::Missing };
        let x = valid_ca(&signer, &ta, TA_KEY, CA_KEY, ca_res.clone());
        let p = valid_ca(&signer, &ta, TA_KEY, OTHER_KEY, ca_res.clone());
        let child_x = build_cert(&signer, &Spec::issued(Kind::Ee, LEAF_KEY, CA_KEY, signer.ski(CA_KEY), leaf_res.clone(), Overclaim::Refuse));
        let child_p = build_cert(&signer, &Spec::issued(Kind::Ee, LEAF_KEY, OTHER_KEY, signer.ski(OTHER_KEY), leaf_res.clone(), Overclaim::Refuse));
        // signed by P's key, names X: AKI = X's SKI, issuer name = X's
        let forged = { let mut s = Spec::issued(Kind::Ee, LEAF_KEY, CA_KEY, signer.ski(CA_KEY), leaf_res.clone(), Overclaim::Refuse); s.signing_key = OTHER_KEY; build_cert(&signer, &s) };
        let base_bits = signer.public(CA2_KEY).bits().to_vec();
        let fabricated = |i: u32| -> Option<PublicKey> {
            let mut b = base_bits.clone(); let mid = b.len() / 2;
            for (k, o) in i.to_be_bytes().iter().enumerate() { b[mid + k] ^= *o }
            b[mid + 4] ^= 0x5a; // never the pool key itself
            PublicKey::rsa_from_bits_bytes(bytes::Bytes::from(b)).ok()
        };
        if fabricated(1).is_none() { ctx.machinery_error("history.key_scale: fabricated public keys are not well-formed") }
        let mut ns: Vec<u32> = (0..=130).collect(); ns.extend(254..=258); ns.extend(510..=514);
        if ctx.tier.is_thorough() { ns.extend(1022..=1026); ns.extend(4094..=4098) }
        let bogus = RpkiSignature::new(RpkiSignatureAlgorithm::default(), bytes::Bytes::from(vec![0x42u8; 256]));
        let t = time(T0);
        std::thread::scope(|scope| {
            for chunk in ns.chunks(16) {
                let hs: Vec<_> = chunk.iter().flat_map(|&n| [false, true].into_iter().map(move |p_first| (n, p_first))).map(|(n, p_first)| {
                    let (sp, ctx, x, p, child_x, child_p, forged, fabricated, bogus) = (&sp, &ctx, &x, &p, &child_x, &child_p, &forged, &fabricated, &bogus);
                    scope.spawn(move || {
                        let r = guard(|| {
                            let first = child_x.clone().validate_ee_at(x, true, t).is_ok();
                            let mut second = true;
                            if p_first { second = child_p.clone().validate_ee_at(p, true, t).is_ok() }
                            let mut spurious = 0u32;
                            for i in 0..n { if let Some(k) = fabricated(i) { if k.verify(b"history.key_scale", bogus).is_ok() { spurious += 1 } } }
                            if !p_first { second = child_p.clone().validate_ee_at(p, true, t).is_ok() }
                            (first, second, spurious,
                             forged.clone().validate_ee_at(x, true, t).is_ok(), child_x.clone().validate_ee_at(x, true, t).is_ok(), child_p.clone().validate_ee_at(p, true, t).is_ok())
                        });
                        let wit = |subject: &str| format!("distinct_keys_before={n} order={} subject={subject}", if p_first { "X,P,keys" } else { "X,keys,P" });
                        sp.evals(3); sp.nontrivial(3);
                        match r {
                            Err(e) => ctx.fail("C01.history.key_scale.nopanic", wit("-"), e),
                            Ok((first, second, spurious, forged_ok, cx, cp)) => {
                                if !first || !second { ctx.fail("C01.history.key_scale", wit("setup"), format!("the good children validated at the start: under X {first}, under P {second}")) }
                                if spurious > 0 { ctx.fail("C01.history.key_scale", wit("fabricated keys"), format!("{spurious} arbitrary signatures verified under fabricated keys")) }
                                if forged_ok { ctx.fail("C01.history.key_scale", wit("signed-by-P-naming-X"), "a certificate signed by another CA's key is accepted under X after the thread has used this many keys") }
                                if !cx { ctx.fail("C01.history.key_scale", wit("good-child-of-X"), "a correctly issued certificate is rejected under X after the thread has used this many keys") }
                                if !cp { ctx.fail("C01.history.key_scale", wit("good-child-of-P"), "a correctly issued certificate is rejected under P after the thread has used this many keys") }
                                sp.outcome(if forged_ok { "forged-accepted" } else { "forged-rejected" }); sp.outcome(if cx && cp { "good-accepted" } else { "good-rejected" });
                            }
                        }
                    })
                }).collect();
                for h in hs { let _ = h.join(); }
            }
        });
        sp.sample_str(|| "distinct_keys_before=64 order=X,keys,P subject=signed-by-P-naming-X -> rejected".into());
        sp.done(true, &format!("{} key counts x 2 orders x 3 subjects, each on its own OS thread", ns.len()));
    }

    //---------------------------------------------------------------- object-level history
    // State that lives INSIDE one `Cert` value (a memo of an earlier verdict, of the key a
    // signature was checked with, of resolved resources) and outlives a call: one decoded
    // object and its clones are judged again and again by calls that differ in what the
    // acceptance predicate depends on; a freshly decoded twin that only ever sees the one
    // call is the reference.
    {
        use rpki::repository::tal::TalInfo;
        use rpki::repository::x509::{Time, Validity};
        let thorough = ctx.tier.is_thorough();
        let sp = ctx.space("object.history",
            "ONE decoded Cert object per subject {sub-CA, EE, router x refuse / trim (sub-CA, EE also: v4 and AS inherited); trust anchor} and its clones, validated repeatedly: every ordered pair (thorough: also every triple over the core of the menu) of calls out of the menu {main route validate_X_at(strict) x 11 offered issuers x 3 instants (inside, 1 s before, 1 s after the window); the routes validate_X_at(relaxed), inspect_X + verify_X_at with every issuer at the inside instant and with the right issuer at the other instants; the wall-clock routes validate_X, inspect_X + verify_X with every issuer; for EE objects the detached-EE routes as well; the pieces verify_validity x instants, verify_issuer_claim / verify_signature x issuers, inspect_{ca,ee,detached_ee,router,ta} strict and relaxed; the sibling routes of the other kinds; trust anchor: validate_ta_at / inspect_ta + verify_ta_at x 2 TALs x instants, verify_ta_ref[_at], validate_ta}; offered issuers: the right one, the SAME KEY re-issued with fewer AS / fewer IPv4 / fewer IPv6 / IPv4 only / more resources, a trimming-policy issuer certificate validated under a smaller trust anchor (effective resources differ from what its certificate says), ONE all-inherit issuer certificate validated under the smaller and under the full trust anchor (same octets, different validated resources), another key, another key carrying the issuer's subject key identifier value; x object carrier {every call on the same object (by-value routes consume a clone made at call time); continue on the certificate recovered from the ResourceCert the previous call returned; continue on a clone made after the call, original dropped; first call on the original, the rest on a clone made BEFORE it}; oracle (differential): verdict, resulting resources and TAL of the LAST call equal those of a freshly decoded twin given that call alone; and the twin's answer equals the interval model (accept <=> route fits the kind, issuer key and key identifier right, instant inside, claims covered under refuse; result = claim | claim & issuer | issuer's); non-trivial = sequences whose last call's answer (fresh) differs from the answer of an earlier call of the sequence");
        let y2000 = Time::utc(2000, 1, 1, 0, 0, 0).timestamp();
        let y2100 = Time::utc(2100, 1, 1, 0, 0, 0).timestamp();
        let window = Validity::new(time(y2000), time(y2100));
        let db8 = 0x2001_0db8u128 << 96;
        let v6p = |lo: u128, len: u32| -> (u128, u128) { (lo, lo | ((1u128 << (128 - len)) - 1)) };
        let all_iv: [Iv; 3] = [vec![(0, u32::MAX as u128)], vec![(0, u128::MAX)], vec![(0, u32::MAX as u128)]];
        // the two trust anchors (same key): everything, and a small one under its own TAL
        let full = Res { v4: Claim::Blocks(vec![(0x0a00_0000, 0x0aff_ffff), (0xc000_0200, 0xc000_02ff)]), v6: Claim::Blocks(vec![v6p(db8, 32)]), asn: Claim::Blocks(vec![(64496, 64511)]) };
        let small = Res { v4: Claim::Blocks(vec![(0x0a00_0000, 0x0a00_01ff)]), v6: Claim::Blocks(vec![(0, u128::MAX)]), asn: Claim::Blocks(vec![(64496, 64505)]) };
        let small_iv: [Iv; 3] = [vec![(0x0a00_0000, 0x0a00_01ff)], vec![(0, u128::MAX)], vec![(64496, 64505)]];
        let ta_small = build_cert(&signer, &Spec::ta(TA_KEY, small.clone())).validate_ta_at(TalInfo::from_name("small".into()).into_arc(), true, time(T0)).expect("small TA validates");
        let inherit_all = Res { v4: Claim::Inherit, v6: Claim::Inherit, asn: Claim::Inherit };
        // (name, subject key, under the small TA?, what the issuer certificate says, its policy, carries CA_KEY's identifier although it has another key?)
        let issuer_specs: Vec<(&'static str, usize, bool, Res, Overclaim, bool)> = vec![
            ("right", CA_KEY, false, full.clone(), Overclaim::Refuse, false),
            ("same-key-fewer-as", CA_KEY, false, Res { asn: Claim::Blocks(vec![(64496, 64505)]), ..full.clone() }, Overclaim::Refuse, false),
            ("same-key-fewer-v4", CA_KEY, false, Res { v4: Claim::Blocks(vec![(0x0a00_0000, 0x0a00_01ff)]), ..full.clone() }, Overclaim::Refuse, false),
            ("same-key-fewer-v6", CA_KEY, false, Res { v6: Claim::Blocks(vec![v6p(db8, 49)]), ..full.clone() }, Overclaim::Refuse, false),
            ("same-key-v4-only", CA_KEY, false, Res { v6: Claim::Missing, asn: Claim::Missing, ..full.clone() }, Overclaim::Refuse, false),
            ("same-key-more", CA_KEY, false, Res::all(), Overclaim::Refuse, false),
            ("same-key-trimmed-under-small-ta", CA_KEY, true, full.clone(), Overclaim::Trim, false),
            ("same-key-inherit-under-small-ta", CA_KEY, true, inherit_all.clone(), Overclaim::Refuse, false),
            ("same-key-inherit-under-full-ta", CA_KEY, false, inherit_all.clone(), Overclaim::Refuse, false),
            ("other-key", OTHER_KEY, false, full.clone(), Overclaim::Refuse, false),
            ("other-key-same-ski-value", CA2_KEY, false, full.clone(), Overclaim::Refuse, true),
        ];
        let mut issuers: Vec<OIssuer> = Vec::new();
        for (n, (name, key, under_small, res, mode, forged_ski)) in issuer_specs.into_iter().enumerate() {
            let (parent, parent_iv, tal_name) = if under_small { (&ta_small, &small_iv, "small") } else { (&ta, &all_iv, "verif") };
            let mut spec = Spec::issued(Kind::Ca, key, TA_KEY, ta_ski, res.clone(), mode);
            spec.serial = 100 + n as u128;
            if forged_ski { spec.ski_override = Some(signer.ski(CA_KEY)) }
            let cert = build_cert(&signer, &spec);
            // verify_ca_at does not compare the subject key identifier with the key: the only way to a
            // ResourceCert with a foreign identifier
            let rc = if forged_ski { guard(|| cert.verify_ca_at(parent, true, time(T0)).ok()) } else { guard(|| cert.validate_ca_at(parent, true, time(T0)).ok()) };
            let Ok(Some(rc)) = rc else {
                if forged_ski { ctx.assume("object.history: verify_ca_at refuses a CA certificate whose SKI is not the hash of its key; the same-SKI-different-key issuer is left out") }
                else { ctx.fail("C01.object.history.issuer", format!("issuer={name}"), "the offered issuer does not validate under its trust anchor") }
                continue
            };
            let eff = [oh_eff(&parent_iv[0], &res.v4, mode), oh_eff(&parent_iv[1], &res.v6, mode), oh_eff(&parent_iv[2], &res.asn, mode)];
            let [Some(v4), Some(v6), Some(asn)] = eff else { ctx.machinery_error(format!("object.history: issuer {name} overclaims by construction")); continue };
            let want = Obs::AcceptedWith { v4: v4.clone(), v6: v6.clone(), asn: asn.clone(), tal: tal_name.to_string() };
            if oh_obs(&rc) != want { ctx.fail("C01.object.history.issuer", format!("issuer={name}"), format!("validated issuer is {:x?}, model {:x?}", oh_obs(&rc), want)) }
            issuers.push(OIssuer { name, rc, key_ok: key == CA_KEY, aki_ok: key == CA_KEY || forged_ski, v4, v6, asn, tal: tal_name });
        }
        let env = OEnv {
            issuers,
            tals: vec![tal(), TalInfo::from_name("other".into()).into_arc()],
            instants: vec![("inside", true, time(T0)), ("1s-before", false, time(y2000 - 1)), ("1s-after", false, time(y2100 + 1))],
        };
        // the subjects: claims that every "fewer" issuer fails to cover in exactly one family
        let claims = Res { v4: Claim::Blocks(vec![(0x0a00_0000, 0x0a00_00ff), (0x0a00_0200, 0x0a00_02ff)]), v6: Claim::Blocks(vec![v6p(db8, 48)]), asn: Claim::Blocks(vec![(64500, 64501), (64510, 64510)]) };
        let as_only = Res { v4: Claim::Missing, v6: Claim::Missing, asn: claims.asn.clone() };
        let mixed = Res { v4: Claim::Inherit, v6: claims.v6.clone(), asn: Claim::Inherit };
        let mut subjects: Vec<OSubject> = Vec::new();
        for (kind, label, res, mode) in [
            (Kind::Ca, "ca.refuse", claims.clone(), Overclaim::Refuse), (Kind::Ca, "ca.trim", claims.clone(), Overclaim::Trim), (Kind::Ca, "ca.inherit-v4-as", mixed.clone(), Overclaim::Refuse),
            (Kind::Ee, "ee.refuse", claims.clone(), Overclaim::Refuse), (Kind::Ee, "ee.trim", claims.clone(), Overclaim::Trim), (Kind::Ee, "ee.inherit-v4-as", mixed.clone(), Overclaim::Refuse),
            (Kind::Router, "router.refuse", as_only.clone(), Overclaim::Refuse), (Kind::Router, "router.trim", as_only.clone(), Overclaim::Trim),
            (Kind::Ta, "ta", Res::all(), Overclaim::Refuse),
        ] {
            let mut spec = if kind == Kind::Ta { Spec::ta(TA_KEY, res.clone()) } else { Spec::issued(kind, if kind == Kind::Ca { CA2_KEY } else { LEAF_KEY }, CA_KEY, signer.ski(CA_KEY), res.clone(), mode) };
            spec.validity = window;
            subjects.push(OSubject { label, kind, mode, res, der: build_cert_der(&signer, &spec) });
        }
        let carriers: [Carrier; 4] = [Carrier::Same, Carrier::Recovered, Carrier::CloneAfter, Carrier::CloneBefore];
        let mut bound = Vec::new();
        for subj in &subjects {
            let menu = oh_menu(subj.kind, env.issuers.len());
            // the freshly decoded twin: one object per call, and the model
            let fresh: Vec<Obs> = menu.par_iter().map(|(call, _)| {
                let wit = || format!("subject={} call={}", subj.label, env.call_name(*call));
                match guard(|| env.run(&subj.der, &[*call], Carrier::Same)) {
                    Ok(o) => {
                        let m = env.model(subj, *call);
                        if o != m { ctx.fail(if m == Obs::Rejected { "C01.object.history.model.reject" } else { "C01.object.history.model.accept" }, wit(), format!("a freshly decoded certificate gives {o:x?}, the model {m:x?}")) }
                        o
                    }
                    Err(p) => { ctx.fail("C01.object.history.nopanic", wit(), p); Obs::Rejected }
                }
            }).collect();
            sp.evals(menu.len() as u64);
            // a second run of the single calls: the harness owns every choice
            let again: Vec<Obs> = menu.iter().map(|(call, _)| guard(|| env.run(&subj.der, &[*call], Carrier::Same)).unwrap_or(Obs::Rejected)).collect();
            if again != fresh { ctx.machinery_error(format!("object.history: single-call observations of {} differ between two runs", subj.label)) }
            let core: Vec<usize> = (0..menu.len()).filter(|i| menu[*i].1).collect();
            // by-reference kinds have nothing to recover from a result; by-value kinds clone at every call anyway
            let cs: Vec<Carrier> = carriers.iter().copied().filter(|c| if subj.kind == Kind::Router { *c != Carrier::Recovered } else { *c != Carrier::CloneAfter }).collect();
            let work: Vec<(Carrier, usize)> = cs.iter().flat_map(|c| (0..menu.len()).map(move |a| (*c, a))).collect();
            work.par_iter().for_each(|&(carrier, a)| {
                let mut oc: BTreeMap<&'static str, u64> = BTreeMap::new();
                let (mut n, mut nt) = (0u64, 0u64);
                let mut judge = |seq: &[usize]| {
                    n += 1;
                    let last = *seq.last().unwrap();
                    if seq[..seq.len() - 1].iter().any(|i| fresh[*i] != fresh[last]) { nt += 1 }
                    let prev = seq[seq.len() - 2];
                    *oc.entry(match (fresh[prev] != Obs::Rejected, fresh[last] != Obs::Rejected) { (true, true) => "accepted-after-accepted", (true, false) => "rejected-after-accepted", (false, true) => "accepted-after-rejected", (false, false) => "rejected-after-rejected" }).or_insert(0) += 1;
                    let calls: Vec<OCall> = seq.iter().map(|i| menu[*i].0).collect();
                    let wit = || format!("subject={} object={} calls=[{}]", subj.label, carrier.name(), calls.iter().map(|c| env.call_name(*c)).collect::<Vec<_>>().join(" ; "));
                    match guard(|| env.run(&subj.der, &calls, carrier)) {
                        Err(p) => ctx.fail("C01.object.history.nopanic", wit(), p),
                        Ok(got) => if got != fresh[last] {
                            ctx.fail(if fresh[last] == Obs::Rejected { "C01.object.history.fresh_twin.reject" } else { "C01.object.history.fresh_twin.accept" }, wit(),
                                format!("the last call gives {got:x?} on the object with this history; a freshly decoded copy of the same certificate gives {:x?} for that call alone", fresh[last]));
                        },
                    }
                };
                for b in 0..menu.len() { judge(&[a, b]) }
                if thorough && menu[a].1 { for &b in &core { for &c in &core { judge(&[a, b, c]) } } }
                sp.evals(n); sp.nontrivial(nt); sp.merge_outcomes(&oc);
            });
            sp.sample_str(|| format!("subject={}: {} calls ({} in the core), {} object carriers; e.g. {} -> {:x?}", subj.label, menu.len(), core.len(), cs.len(), env.call_name(menu[0].0), fresh[0]));
            bound.push(format!("{}: {} calls", subj.label, menu.len()));
        }
        sp.set("issuers", serde_json::json!(env.issuers.iter().map(|i| i.name).collect::<Vec<_>>()));
        sp.done(true, &format!("all ordered pairs{} of calls x object carriers, per subject ({})", if thorough { " of the menu and all triples of its core" } else { "" }, bound.join(", ")));
    }

    //---------------------------------------------------------------- environment
    {
        let sp = ctx.space("environment.tz",
            "the explorer re-executes itself with TZ set to UTC, America/New_York, Asia/Tokyo, Pacific/Chatham, the POSIX string EST5EDT and an unusable value, and compares the decoded validity (as seconds since the epoch) and the verdict at 10 instants around both ends of 4 windows (UTCTime, a European and an American DST change date, GeneralizedTime) for TA, CA, EE and router certificates; oracle: identical observations in every environment and in this process; non-trivial = every observation compared");
        let here = env_observations();
        let exe = std::env::current_exe().expect("own path");
        let mut usable = 0;
        for tz in ["UTC", "America/New_York", "Asia/Tokyo", "Pacific/Chatham", "EST5EDT", "<-03>3", ":/nonexistent/zone"] {
            let out = std::process::Command::new(&exe).arg("--observe-env").env("TZ", tz).output();
            let Ok(out) = out else { ctx.machinery_error(format!("cannot re-execute for TZ={tz}")); continue };
            if !out.status.success() { ctx.fail("C01.environment.tz", format!("TZ={tz}"), format!("child ended with {:?}: {}", out.status, String::from_utf8_lossy(&out.stderr).chars().take(300).collect::<String>())); continue }
            let lines: Vec<String> = String::from_utf8_lossy(&out.stdout).lines().map(|l| l.to_string()).collect();
            if lines.len() != here.len() { ctx.fail("C01.environment.tz", format!("TZ={tz}"), format!("{} observations, {} here", lines.len(), here.len())); continue }
            usable += 1;
            for (a, b) in lines.iter().zip(&here) {
                sp.eval(); sp.nontrivial(1);
                if a != b { ctx.fail("C01.environment.tz", format!("TZ={tz} {}", b.split(" -> ").next().unwrap_or("")), format!("with TZ={tz}: `{a}`; in this process: `{b}`")) }
            }
        }
        for l in &here { sp.outcome(if l.ends_with("Ok(true)") { "accepted" } else if l.ends_with("Ok(false)") { "rejected" } else { "decoded-window" }) }
        sp.set("environments", serde_json::json!(usable));
        // does the zone database exist, i.e. did the non-UTC runs really run in another zone?
        let zi = std::path::Path::new("/usr/share/zoneinfo/America/New_York").exists();
        if !zi { ctx.assume("environment.tz: no zone database in this sandbox; only the POSIX TZ strings change the local zone") }
        sp.done(true, "7 TZ settings x 4 windows x 4 kinds x (1 decoded window + 10 instants)");
    }

    ctx.finish();
}

struct IssuerFacts { ski: Vec<u8>, v4: Vec<(u128, u128)>, v6: Vec<(u128, u128)>, asn: Vec<(u128, u128)> }

/// What the property demands of a certificate the library accepted, decided
/// from the certificate's octets by the reference reader alone.
fn check_accepted(cert: &[u8], kind: Kind, iss: &IssuerFacts, rc: Option<&ResourceCert>, t: i64, strict: bool) -> Result<&'static str, (&'static str, String)> {
    use rpki_verif::engine::certref::{self as cr, RClaim};
    let r = match cr::read_cert(cert) {
        Ok(r) => r,
        // relaxed mode may accept BER spellings (indefinite lengths) the reference reader does not follow
        Err(e) => return if strict { Err(("reference_reads", format!("accepted in strict mode, but the reference reader cannot follow it: {e}"))) } else { Ok("accepted-relaxed-not-read") },
    };
    if !(r.not_before <= t && t <= r.not_after) { return Err(("validity", format!("accepted at {t}, window is [{}, {}]", r.not_before, r.not_after))) }
    if r.aki.len() != 1 || r.aki[0].as_deref() != Some(iss.ski.as_slice()) {
        return Err(("aki", format!("accepted with authority key identifier(s) {:?}, issuer's subject key identifier is {}", r.aki.iter().map(|a| a.as_ref().map(|a| hex(a))).collect::<Vec<_>>(), hex(&iss.ski))))
    }
    let want = rpki_verif::engine::signer::sha1(&r.key_bits);
    if r.ski.len() != 1 || r.ski[0] != want { return Err(("ski", format!("accepted with subject key identifier(s) {:?}, SHA-1 of the key is {}", r.ski.iter().map(|a| hex(a)).collect::<Vec<_>>(), hex(&want)))) }
    let refuse = r.policies.iter().any(|p| p == cr::OID_POLICY_REFUSE);
    let trim = r.policies.iter().any(|p| p == cr::OID_POLICY_TRIM);
    let res: [Option<Vec<(u128, u128)>>; 3] = match rc {
        Some(rc) => [
            Some(rc.v4_resources().iter().map(|b| (b.min().to_bits() >> 96, b.max().to_bits() >> 96)).collect()),
            Some(rc.v6_resources().iter().map(|b| (b.min().to_bits(), b.max().to_bits())).collect()),
            Some(rc.as_resources().iter().map(|b| (b.min().into_u32() as u128, b.max().into_u32() as u128)).collect()),
        ],
        None => [None, None, None],
    };
    let _ = kind;
    for (name, entries, issuer, got) in [("v4", &r.v4, &iss.v4, &res[0]), ("v6", &r.v6, &iss.v6, &res[1]), ("as", &r.asn, &iss.asn, &res[2])] {
        let inherit = entries.iter().any(|e| *e == RClaim::Inherit);
        let blocks: Vec<(u128, u128)> = entries.iter().flat_map(|e| match e { RClaim::Blocks(v) => v.clone(), _ => vec![] }).collect();
        if blocks.iter().any(|(a, b)| a > b) && refuse { return Err(("resources", format!("{name}: accepted with an inverted range {blocks:x?}"))) }
        let claimed = cr::normalise(&blocks);
        if refuse && !trim && !cr::subset(&claimed, issuer) { return Err(("resources", format!("{name}: no-overclaim certificate accepted although it claims {claimed:x?}, issuer holds {issuer:x?}"))) }
        let Some(got) = got else { continue };
        let got = cr::normalise(got);
        if !cr::subset(&got, issuer) { return Err(("resources", format!("{name}: result {got:x?} is not inside the issuer's {issuer:x?}"))) }
        let expect = if inherit && blocks.is_empty() { Some(cr::normalise(issuer)) }
            else if inherit { None }
            else if refuse && !trim { Some(claimed.clone()) }
            else if trim && !refuse { Some(cr::intersect(&claimed, issuer)) }
            else { None };
        if let Some(e) = expect { if e != got { return Err(("resources", format!("{name}: result {got:x?}, the certificate's entries {entries:x?} under issuer {issuer:x?} give {e:x?}"))) } }
    }
    Ok(if r.trailing_in_ext_value > 0 { "accepted-verified-trailing-octets-in-extension-value" } else { "accepted-verified" })
}

//==================================================================== object-level history
// (space `object.history`)

type Iv = Vec<(u128, u128)>;

/// The validation families of the public API.
#[derive(Clone, Copy, PartialEq, Eq, Debug)]
enum EFam { Ca, Ee, Det, Router, Ta }

impl EFam {
    const ALL: [EFam; 5] = [EFam::Ca, EFam::Ee, EFam::Det, EFam::Router, EFam::Ta];
    /// (inspect_*, verify_* stem, validate_* stem)
    fn stems(self) -> (&'static str, &'static str, &'static str) {
        match self {
            EFam::Ca => ("inspect_ca", "verify_ca", "validate_ca"), EFam::Ee => ("inspect_ee", "verify_ee", "validate_ee"),
            EFam::Det => ("inspect_detached_ee", "verify_ee", "validate_detached_ee"), EFam::Router => ("inspect_router", "verify_router", "validate_router"),
            EFam::Ta => ("inspect_ta", "verify_ta", "validate_ta"),
        }
    }
    /// The families a certificate of this kind conforms to.
    fn of(kind: Kind) -> &'static [EFam] {
        match kind { Kind::Ca => &[EFam::Ca], Kind::Ee => &[EFam::Ee, EFam::Det], Kind::Router => &[EFam::Router], Kind::Ta => &[EFam::Ta] }
    }
}

#[derive(Clone, Copy, PartialEq, Eq, Debug)]
enum Route {
    /// validate_X_at(issuer, strict, t)
    ValidateAt(bool),
    /// inspect_X(strict) on the object, then verify_X_at(issuer, strict, t)
    InspectVerifyAt,
    /// validate_X(issuer, strict): reads the wall clock (inside the subjects' window 2000..2100)
    ValidateNow,
    /// inspect_X + verify_X
    InspectVerifyNow,
    /// trust anchors: inspect_ta + verify_ta_ref_at / verify_ta_ref (by reference, no result object)
    RefAt, RefNow,
}

#[derive(Clone, Copy, PartialEq, Eq, Debug)]
enum OCall {
    /// `iss` indexes the offered issuers (trust-anchor family: the TALs)
    Entry { fam: EFam, route: Route, iss: usize, inst: usize },
    Validity { inst: usize },
    IssuerClaim { iss: usize },
    Signature { iss: usize },
    Inspect { fam: EFam, strict: bool },
}

/// Everything the property speaks about: the verdict and what is attached to an acceptance.
#[derive(Clone, PartialEq, Eq, Debug)]
enum Obs { Rejected, Accepted, AcceptedWith { v4: Iv, v6: Iv, asn: Iv, tal: String } }

#[derive(Clone, Copy, PartialEq, Eq, Debug)]
enum Carrier { Same, Recovered, CloneAfter, CloneBefore }

impl Carrier {
    fn name(self) -> &'static str {
        match self {
            Carrier::Same => "same-object-every-call",
            Carrier::Recovered => "continue-on-the-certificate-inside-the-returned-ResourceCert",
            Carrier::CloneAfter => "continue-on-a-clone-made-after-the-call",
            Carrier::CloneBefore => "first-call-on-the-original,then-a-clone-made-before-it",
        }
    }
}

struct OIssuer { name: &'static str, rc: ResourceCert, key_ok: bool, aki_ok: bool, v4: Iv, v6: Iv, asn: Iv, tal: &'static str }

struct OSubject { label: &'static str, kind: Kind, mode: Overclaim, res: Res, der: Vec<u8> }

struct OEnv {
    issuers: Vec<OIssuer>,
    tals: Vec<std::sync::Arc<rpki::repository::tal::TalInfo>>,
    instants: Vec<(&'static str, bool, rpki::repository::x509::Time)>,
}

/// One family of the interval model: what a claim is worth under an issuer holding `issuer`.
fn oh_eff(issuer: &Iv, claim: &Claim, mode: Overclaim) -> Option<Iv> {
    use rpki_verif::engine::certref as cr;
    match claim {
        Claim::Missing => Some(Vec::new()),
        Claim::Inherit => Some(issuer.clone()),
        Claim::Blocks(b) => {
            let b = cr::normalise(b);
            match mode { Overclaim::Refuse => if cr::subset(&b, issuer) { Some(b) } else { None }, Overclaim::Trim => Some(cr::intersect(&b, issuer)) }
        }
    }
}

fn oh_obs(rc: &ResourceCert) -> Obs {
    use rpki_verif::engine::certref as cr;
    Obs::AcceptedWith {
        v4: cr::normalise(&rc.v4_resources().iter().map(|b| (b.min().to_bits() >> 96, b.max().to_bits() >> 96)).collect::<Vec<_>>()),
        v6: cr::normalise(&rc.v6_resources().iter().map(|b| (b.min().to_bits(), b.max().to_bits())).collect::<Vec<_>>()),
        asn: cr::normalise(&rc.as_resources().iter().map(|b| (b.min().into_u32() as u128, b.max().into_u32() as u128)).collect::<Vec<_>>()),
        tal: rc.tal().name().to_string(),
    }
}

/// The menu of calls for an object of `kind`; the flag marks the core (used for triples).
fn oh_menu(kind: Kind, n_issuers: usize) -> Vec<(OCall, bool)> {
    let mut m: Vec<(OCall, bool)> = Vec::new();
    let own = EFam::of(kind);
    // issuers 0 (right), 1 (same key, fewer AS) and the last one (foreign key, right identifier value, if it could be built)
    let few: Vec<usize> = { let mut v = vec![0, 1, n_issuers - 1]; v.dedup(); v };
    for (fi, &fam) in own.iter().enumerate() {
        let n_iss = if fam == EFam::Ta { 2 } else { n_issuers };
        for iss in 0..n_iss { for inst in 0..3 { m.push((OCall::Entry { fam, route: Route::ValidateAt(true), iss, inst }, fi == 0 || (inst == 0 && few.contains(&iss)))) } }
        let mut secondary = vec![Route::ValidateAt(false), Route::InspectVerifyAt];
        if fam == EFam::Ta { secondary.push(Route::RefAt) }
        for route in secondary {
            for iss in 0..n_iss { if route == Route::RefAt && iss > 0 { continue } m.push((OCall::Entry { fam, route, iss, inst: 0 }, few.contains(&iss))) }
            for inst in 1..3 { m.push((OCall::Entry { fam, route, iss: 0, inst }, false)) }
        }
        let mut clock = vec![Route::ValidateNow, Route::InspectVerifyNow];
        if fam == EFam::Ta { clock.push(Route::RefNow) }
        for route in clock { for iss in 0..n_iss { if route == Route::RefNow && iss > 0 { continue } m.push((OCall::Entry { fam, route, iss, inst: 0 }, route == Route::ValidateNow && few.contains(&iss))) } }
    }
    for inst in 0..3 { m.push((OCall::Validity { inst }, true)) }
    for iss in 0..n_issuers { m.push((OCall::IssuerClaim { iss }, iss == 0 || iss == n_issuers - 2)) }
    for iss in 0..n_issuers { m.push((OCall::Signature { iss }, iss == 0 || iss == n_issuers - 1)) }
    for fam in EFam::ALL { for strict in [true, false] { m.push((OCall::Inspect { fam, strict }, false)) } }
    for fam in EFam::ALL { if !own.contains(&fam) { m.push((OCall::Entry { fam, route: Route::ValidateAt(true), iss: 0, inst: 0 }, false)) } }
    m
}

impl OEnv {
    fn call_name(&self, call: OCall) -> String {
        match call {
            OCall::Entry { fam, route, iss, inst } => {
                let (i, ver, val) = fam.stems();
                let whom = if fam == EFam::Ta { format!("tal={}", self.tals[iss % self.tals.len()].name()) } else { format!("issuer={}", self.issuers[iss].name) };
                let t = self.instants[inst].0;
                match route {
                    Route::ValidateAt(strict) => format!("{val}_at({whom},{},t={t})", if strict { "strict" } else { "relaxed" }),
                    Route::InspectVerifyAt => format!("{i}+{ver}_at({whom},strict,t={t})"),
                    Route::ValidateNow => format!("{val}({whom},strict,wall-clock)"),
                    Route::InspectVerifyNow => format!("{i}+{ver}({whom},strict,wall-clock)"),
                    Route::RefAt => format!("{i}+{ver}_ref_at(strict,t={t})"),
                    Route::RefNow => format!("{i}+{ver}_ref(strict,wall-clock)"),
                }
            }
            OCall::Validity { inst } => format!("verify_validity(t={})", self.instants[inst].0),
            OCall::IssuerClaim { iss } => format!("verify_issuer_claim(issuer={})", self.issuers[iss].name),
            OCall::Signature { iss } => format!("verify_signature(issuer={})", self.issuers[iss].name),
            OCall::Inspect { fam, strict } => format!("{}({})", fam.stems().0, if strict { "strict" } else { "relaxed" }),
        }
    }

    /// One call on the object `c`. By-value routes consume a clone made here; the second
    /// component is the certificate inside the returned ResourceCert, if there is one.
    fn exec(&self, c: &Cert, call: OCall) -> (Obs, Option<Cert>) {
        fn fin<E>(r: Result<ResourceCert, E>) -> (Obs, Option<Cert>) { match r { Ok(rc) => (oh_obs(&rc), Some(rc.as_cert().clone())), Err(_) => (Obs::Rejected, None) } }
        fn unit(ok: bool) -> (Obs, Option<Cert>) { (if ok { Obs::Accepted } else { Obs::Rejected }, None) }
        match call {
            OCall::Validity { inst } => unit(c.verify_validity(self.instants[inst].2).is_ok()),
            OCall::IssuerClaim { iss } => unit(c.verify_issuer_claim(&self.issuers[iss].rc, true).is_ok()),
            OCall::Signature { iss } => unit(c.verify_signature(self.issuers[iss].rc.as_cert(), true).is_ok()),
            OCall::Inspect { fam, strict } => unit(match fam {
                EFam::Ca => c.inspect_ca(strict).is_ok(), EFam::Ee => c.inspect_ee(strict).is_ok(), EFam::Det => c.inspect_detached_ee(strict).is_ok(),
                EFam::Router => c.inspect_router(strict).is_ok(), EFam::Ta => c.inspect_ta(strict).is_ok(),
            }),
            OCall::Entry { fam, route, iss, inst } => {
                let t = self.instants[inst].2;
                if fam == EFam::Ta {
                    let tal = self.tals[iss % self.tals.len()].clone();
                    return match route {
                        Route::ValidateAt(s) => fin(c.clone().validate_ta_at(tal, s, t)),
                        Route::InspectVerifyAt => if c.inspect_ta(true).is_err() { unit(false) } else { fin(c.clone().verify_ta_at(tal, true, t)) },
                        Route::ValidateNow => fin(c.clone().validate_ta(tal, true)),
                        Route::InspectVerifyNow => if c.inspect_ta(true).is_err() { unit(false) } else { fin(c.clone().verify_ta(tal, true)) },
                        Route::RefAt => unit(c.inspect_ta(true).is_ok() && c.verify_ta_ref_at(true, t).is_ok()),
                        Route::RefNow => unit(c.inspect_ta(true).is_ok() && c.verify_ta_ref(true).is_ok()),
                    }
                }
                let i = &self.issuers[iss].rc;
                match (fam, route) {
                    (EFam::Ca, Route::ValidateAt(s)) => fin(c.clone().validate_ca_at(i, s, t)),
                    (EFam::Ca, Route::InspectVerifyAt) => if c.inspect_ca(true).is_err() { unit(false) } else { fin(c.clone().verify_ca_at(i, true, t)) },
                    (EFam::Ca, Route::ValidateNow) => fin(c.clone().validate_ca(i, true)),
                    (EFam::Ca, Route::InspectVerifyNow) => if c.inspect_ca(true).is_err() { unit(false) } else { fin(c.clone().verify_ca(i, true)) },
                    (EFam::Ee, Route::ValidateAt(s)) => fin(c.clone().validate_ee_at(i, s, t)),
                    (EFam::Ee, Route::InspectVerifyAt) => if c.inspect_ee(true).is_err() { unit(false) } else { fin(c.clone().verify_ee_at(i, true, t)) },
                    (EFam::Ee, Route::ValidateNow) => fin(c.clone().validate_ee(i, true)),
                    (EFam::Ee, Route::InspectVerifyNow) => if c.inspect_ee(true).is_err() { unit(false) } else { fin(c.clone().verify_ee(i, true)) },
                    (EFam::Det, Route::ValidateAt(s)) => fin(c.clone().validate_detached_ee_at(i, s, t)),
                    (EFam::Det, Route::InspectVerifyAt) => if c.inspect_detached_ee(true).is_err() { unit(false) } else { fin(c.clone().verify_ee_at(i, true, t)) },
                    (EFam::Det, Route::ValidateNow) => fin(c.clone().validate_detached_ee(i, true)),
                    (EFam::Det, Route::InspectVerifyNow) => if c.inspect_detached_ee(true).is_err() { unit(false) } else { fin(c.clone().verify_ee(i, true)) },
                    (EFam::Router, Route::ValidateAt(s)) => unit(c.validate_router_at(i, s, t).is_ok()),
                    (EFam::Router, Route::InspectVerifyAt) => unit(c.inspect_router(true).is_ok() && c.verify_router_at(i, true, t).is_ok()),
                    (EFam::Router, Route::ValidateNow) => unit(c.validate_router(i, true).is_ok()),
                    (EFam::Router, Route::InspectVerifyNow) => unit(c.inspect_router(true).is_ok() && c.verify_router(i, true).is_ok()),
                    (_, Route::RefAt) | (_, Route::RefNow) | (EFam::Ta, _) => unreachable!("route not in the menu"),
                }
            }
        }
    }

    /// Decodes ONE object and runs the calls on it (and its clones, as the carrier says);
    /// returns the observation of the last call.
    fn run(&self, der: &[u8], calls: &[OCall], carrier: Carrier) -> Obs {
        let obj = Cert::decode(der).expect("subject decodes");
        let mut before = if carrier == Carrier::CloneBefore { Some(obj.clone()) } else { None };
        let mut kept_alive: Vec<Cert> = Vec::new();
        let mut cur = obj;
        let mut last = Obs::Rejected;
        for (k, call) in calls.iter().enumerate() {
            let (o, recovered) = self.exec(&cur, *call);
            last = o;
            if k + 1 == calls.len() { break }
            match carrier {
                Carrier::Same => {}
                Carrier::Recovered => if let Some(r) = recovered { cur = r },
                Carrier::CloneAfter => { let c = cur.clone(); cur = c }
                Carrier::CloneBefore => if let Some(b) = before.take() { kept_alive.push(std::mem::replace(&mut cur, b)) },
            }
        }
        drop(kept_alive);
        last
    }

    /// The interval model of one call on a subject, from how the subject and the issuers were built.
    fn model(&self, s: &OSubject, call: OCall) -> Obs {
        let own = EFam::of(s.kind);
        let unit = |ok: bool| if ok { Obs::Accepted } else { Obs::Rejected };
        match call {
            OCall::Validity { inst } => unit(self.instants[inst].1),
            // a trust anchor carries no authority key identifier and is signed with its own key
            OCall::IssuerClaim { iss } => unit(s.kind != Kind::Ta && self.issuers[iss].aki_ok),
            OCall::Signature { iss } => unit(s.kind != Kind::Ta && self.issuers[iss].key_ok),
            OCall::Inspect { fam, .. } => unit(own.contains(&fam)),
            OCall::Entry { fam, route, iss, inst } => {
                let time_ok = matches!(route, Route::ValidateNow | Route::InspectVerifyNow | Route::RefNow) || self.instants[inst].1;
                if !own.contains(&fam) || !time_ok { return Obs::Rejected }
                if fam == EFam::Ta {
                    if matches!(route, Route::RefAt | Route::RefNow) { return Obs::Accepted }
                    let all = |c: &Claim| match c { Claim::Blocks(b) => b.clone(), _ => Vec::new() };
                    return Obs::AcceptedWith { v4: all(&s.res.v4), v6: all(&s.res.v6), asn: all(&s.res.asn), tal: self.tals[iss % self.tals.len()].name().to_string() }
                }
                let i = &self.issuers[iss];
                if !i.key_ok || !i.aki_ok { return Obs::Rejected }
                match (oh_eff(&i.v4, &s.res.v4, s.mode), oh_eff(&i.v6, &s.res.v6, s.mode), oh_eff(&i.asn, &s.res.asn, s.mode)) {
                    (Some(v4), Some(v6), Some(asn)) => if fam == EFam::Router { Obs::Accepted } else { Obs::AcceptedWith { v4, v6, asn, tal: i.tal.to_string() } },
                    _ => Obs::Rejected,
                }
            }
        }
    }
}
