//! C11 — CA-protocol XML (RFC 6492, 8181, 8183) round-trips and stays well-formed.
//!
//! Spaces: every public constructor of every message variant driven over
//! explicit field alphabets ("star" products: all fields on a small core
//! alphabet, at most k fields at a time on their full alphabet; k = 1 quick,
//! 2 thorough), list shapes, messages obtained by decoding documents, and for
//! the parsers every single-byte deviation / truncation / attribute and
//! element deletion or duplication of one document per message type plus all
//! short byte strings.
//! Round 8 adds sequences (history.independent: what happened before on the
//! same thread), the process environment (TZ), the parameters of the call
//! (Display format specs, sink kinds, entry points) and who else holds the
//! values (ownership.shared_values, handed_out.sequences).
//! Round 10 adds the construction routes of the resource sets a provisioning
//! message carries (resources.routes.lists / .operations: every public way to
//! build a set, over a number line with both ends of the number space, against
//! the value of the plainest route; prov.resource_routes: those values inside
//! messages, the parsed message also compared with the message built from the
//! expected set).
//! Oracles: (i) parse(write(m)) == m, (ii) written bytes are well-formed XML
//! per the strict checker in this file (and quick-xml's raw reader as a
//! second opinion), (iii) parsers return without panicking.

use std::collections::{BTreeMap, HashSet};
use std::io;
use std::net::{Ipv4Addr, Ipv6Addr};
use std::str::FromStr;
use std::sync::Mutex;
use rayon::prelude::*;
use rpki::ca::csr::RpkiCaCsr;
use rpki::ca::idexchange as idx;
use rpki::ca::provisioning as prov;
use rpki::ca::publication as publ;
use rpki::ca::publication::Base64;
use rpki::ca::sigmsg::SignedMessage;
use rpki::crypto::KeyIdentifier;
use rpki::repository::cert::Cert;
use rpki::repository::cert::Overclaim;
use rpki::repository::resources::{Addr, AddressRange, AsBlock, AsBlocks, AsBlocksBuilder, AsResources, AsResourcesBuilder, Asn, IpBlock, IpBlocks, IpBlocksBuilder, IpResources, IpResourcesBuilder,
    Ipv4Block, Ipv4Blocks, Ipv6Block, Ipv6Blocks, ResourceSet};
use rpki::repository::x509::Time;
use rpki::rrdp::Hash;
use rpki::uri;
use rpki_verif::engine::enumerate::par_chunks;
use rpki_verif::engine::report::repo_dir;
use bcder::Mode;
use bytes::Bytes;
use rpki_verif::engine::der;
use rpki_verif::{guard, hex, trunc, Ctx, Space};

//============ Independent strict well-formedness checker ====================
//
// XML 1.0 (fifth edition) productions for the subset a protocol message may
// use: optional XML declaration, comments, processing instructions, one root
// element, attributes, character data, CDATA sections, the five predefined
// entity references and character references. DOCTYPE is refused (no message
// may carry one). Namespace well-formedness: every prefix must be declared.

#[derive(Default, Debug)]
struct Spans {
    /// (start, end) of every attribute including its leading white space
    attrs: Vec<(usize, usize)>,
    /// (start, end) of every element
    elems: Vec<(usize, usize)>,
    /// number of entity / character references seen
    refs: usize,
    /// (name start, value start, value end) of every attribute: the value between the quotes
    values: Vec<(usize, usize, usize)>,
    /// (start, end) of every run of character data / references that is not only white space
    texts: Vec<(usize, usize)>,
}

struct Wf<'a> { b: &'a [u8], p: usize, sp: Spans, scopes: Vec<Vec<Vec<u8>>> }

fn wf_check(b: &[u8]) -> Result<Spans, String> {
    let s = std::str::from_utf8(b).map_err(|e| format!("not UTF-8 at {}", e.valid_up_to()))?;
    for (i, c) in s.char_indices() {
        let ok = c == '\t' || c == '\n' || c == '\r' || (c >= ' ' && c != '\u{FFFE}' && c != '\u{FFFF}');
        if !ok { return Err(format!("illegal character U+{:04X} at {i}", c as u32)) }
    }
    let mut w = Wf { b, p: 0, sp: Spans::default(), scopes: vec![vec![b"xml".to_vec()]] };
    if w.starts(b"<?xml") && w.b.get(5).is_some_and(|c| is_ws(*c)) {
        let end = w.find(b"?>").ok_or("unterminated XML declaration")?;
        let decl = &b[5..end];
        if !contains(decl, b"version") { return Err("XML declaration without version".into()) }
        w.p = end + 2;
    }
    w.misc()?;
    if w.peek() != Some(b'<') { return Err(format!("expected root element at {}", w.p)) }
    w.element(0)?;
    w.misc()?;
    if w.p != b.len() { return Err(format!("content after the root element at {}", w.p)) }
    Ok(w.sp)
}

fn is_ws(c: u8) -> bool { c == b' ' || c == b'\t' || c == b'\n' || c == b'\r' }
fn contains(h: &[u8], n: &[u8]) -> bool { h.windows(n.len()).any(|w| w == n) }
fn name_start(c: u8) -> bool { c.is_ascii_alphabetic() || c == b'_' || c == b':' || c >= 0x80 }
fn name_char(c: u8) -> bool { name_start(c) || c.is_ascii_digit() || c == b'-' || c == b'.' }

impl<'a> Wf<'a> {
    fn peek(&self) -> Option<u8> { self.b.get(self.p).copied() }
    fn starts(&self, s: &[u8]) -> bool { self.b[self.p..].starts_with(s) }
    fn find(&self, s: &[u8]) -> Option<usize> {
        self.b[self.p..].windows(s.len()).position(|w| w == s).map(|i| i + self.p)
    }
    fn skip_ws(&mut self) -> usize { let s = self.p; while self.peek().is_some_and(is_ws) { self.p += 1 } self.p - s }
    fn expect(&mut self, s: &[u8]) -> Result<(), String> {
        if self.starts(s) { self.p += s.len(); Ok(()) }
        else { Err(format!("expected {:?} at {}", String::from_utf8_lossy(s), self.p)) }
    }
    fn name(&mut self) -> Result<&'a [u8], String> {
        let s = self.p;
        if !self.peek().is_some_and(name_start) { return Err(format!("expected a name at {s}")) }
        while self.peek().is_some_and(name_char) { self.p += 1 }
        let n = &self.b[s..self.p];
        let colons = n.iter().filter(|c| **c == b':').count();
        if colons > 1 || n.first() == Some(&b':') || n.last() == Some(&b':') {
            return Err(format!("name {:?} is not a QName", String::from_utf8_lossy(n)))
        }
        Ok(n)
    }
    fn comment(&mut self) -> Result<(), String> {
        self.expect(b"<!--")?;
        let end = self.find(b"--").ok_or("unterminated comment")?;
        self.p = end;
        self.expect(b"-->").map_err(|_| format!("'--' inside comment at {end}"))
    }
    fn pi(&mut self) -> Result<(), String> {
        self.expect(b"<?")?;
        let n = self.name()?;
        if n.eq_ignore_ascii_case(b"xml") { return Err("XML declaration not at document start".into()) }
        let end = self.find(b"?>").ok_or("unterminated processing instruction")?;
        if end != self.p && !is_ws(self.b[self.p]) { return Err("processing instruction target not followed by space".into()) }
        self.p = end + 2;
        Ok(())
    }
    fn misc(&mut self) -> Result<(), String> {
        loop {
            self.skip_ws();
            if self.starts(b"<!--") { self.comment()? }
            else if self.starts(b"<?") { self.pi()? }
            else { return Ok(()) }
        }
    }
    fn reference(&mut self) -> Result<(), String> {
        let at = self.p;
        self.expect(b"&")?;
        if self.starts(b"#") {
            self.p += 1;
            let (radix, ok): (u32, fn(u8) -> bool) = if self.starts(b"x") { self.p += 1; (16, |c| c.is_ascii_hexdigit()) }
                else { (10, |c| c.is_ascii_digit()) };
            let s = self.p;
            while self.peek().is_some_and(ok) { self.p += 1 }
            if s == self.p { return Err(format!("empty character reference at {at}")) }
            let v = u32::from_str_radix(std::str::from_utf8(&self.b[s..self.p]).unwrap(), radix)
                .map_err(|_| format!("character reference out of range at {at}"))?;
            let legal = matches!(v, 0x9 | 0xA | 0xD | 0x20..=0xD7FF | 0xE000..=0xFFFD | 0x10000..=0x10FFFF);
            if !legal { return Err(format!("character reference to illegal character at {at}")) }
        } else {
            let s = self.p;
            while self.peek().is_some_and(name_char) { self.p += 1 }
            let n = &self.b[s..self.p];
            if !matches!(n, b"lt" | b"gt" | b"amp" | b"quot" | b"apos") {
                return Err(format!("'&' at {at} does not start a predefined entity or character reference"))
            }
        }
        self.expect(b";").map_err(|_| format!("reference at {at} not terminated by ';'"))?;
        self.sp.refs += 1;
        Ok(())
    }
    fn prefix_declared(&self, pfx: &[u8]) -> bool {
        self.scopes.iter().any(|s| s.iter().any(|p| p == pfx))
    }
    fn element(&mut self, depth: usize) -> Result<(), String> {
        if depth > 200 { return Err("nesting deeper than 200".into()) }
        let start = self.p;
        self.expect(b"<")?;
        let name = self.name()?;
        let mut attr_names: Vec<&[u8]> = Vec::new();
        let mut scope: Vec<Vec<u8>> = Vec::new();
        let empty;
        loop {
            let ws = self.skip_ws();
            match self.peek() {
                Some(b'/') => { self.expect(b"/>")?; empty = true; break }
                Some(b'>') => { self.p += 1; empty = false; break }
                None => return Err("end of input inside a start tag".into()),
                _ => {}
            }
            if ws == 0 { return Err(format!("attribute not preceded by white space at {}", self.p)) }
            let astart = self.p - ws;
            let an = self.name()?;
            self.skip_ws();
            self.expect(b"=")?;
            self.skip_ws();
            let q = self.peek().ok_or("end of input in attribute")?;
            if q != b'"' && q != b'\'' { return Err(format!("attribute value not quoted at {}", self.p)) }
            self.p += 1;
            let vstart = self.p;
            loop {
                match self.peek() {
                    None => return Err("end of input in attribute value".into()),
                    Some(c) if c == q => break,
                    Some(b'<') => return Err(format!("'<' in attribute value at {}", self.p)),
                    Some(b'&') => self.reference()?,
                    Some(_) => self.p += 1,
                }
            }
            let vend = self.p;
            self.p += 1;
            if attr_names.contains(&an) { return Err(format!("duplicate attribute {:?}", String::from_utf8_lossy(an))) }
            attr_names.push(an);
            if let Some(p) = an.strip_prefix(b"xmlns:") {
                if vend == vstart { return Err("prefix bound to the empty namespace".into()) }
                scope.push(p.to_vec());
            }
            self.sp.attrs.push((astart, self.p));
            self.sp.values.push((astart + ws, vstart, vend));
        }
        self.scopes.push(scope);
        for n in std::iter::once(&name).chain(attr_names.iter()) {
            if let Some(i) = n.iter().position(|c| *c == b':') {
                let pfx = &n[..i];
                if pfx != b"xmlns" && !self.prefix_declared(pfx) {
                    return Err(format!("undeclared namespace prefix in {:?}", String::from_utf8_lossy(n)))
                }
            }
        }
        if !empty {
            let mut run: Option<usize> = None;
            loop {
                if self.p >= self.b.len() { return Err(format!("element {:?} is never closed", String::from_utf8_lossy(name))) }
                if self.starts(b"<") {
                    if let Some(s) = run.take() { if self.b[s..self.p].iter().any(|c| !is_ws(*c)) { self.sp.texts.push((s, self.p)) } }
                } else if run.is_none() { run = Some(self.p) }
                if self.starts(b"</") {
                    self.p += 2;
                    let n = self.name()?;
                    if n != name {
                        return Err(format!("end tag {:?} does not match {:?}", String::from_utf8_lossy(n), String::from_utf8_lossy(name)))
                    }
                    self.skip_ws();
                    self.expect(b">")?;
                    break
                }
                else if self.starts(b"<!--") { self.comment()? }
                else if self.starts(b"<![CDATA[") {
                    let end = self.find(b"]]>").ok_or("unterminated CDATA section")?;
                    self.p = end + 3;
                }
                else if self.starts(b"<?") { self.pi()? }
                else if self.starts(b"<!") { return Err(format!("markup declaration in content at {}", self.p)) }
                else if self.starts(b"<") { self.element(depth + 1)? }
                else if self.starts(b"&") { self.reference()? }
                else if self.starts(b"]]>") { return Err(format!("']]>' in character data at {}", self.p)) }
                else { self.p += 1 }
            }
        }
        self.scopes.pop();
        self.sp.elems.push((start, self.p));
        Ok(())
    }
}

/// Second opinion: quick-xml's raw event reader with its own checks on.
fn qx_check(b: &[u8]) -> Result<(), String> {
    use quick_xml::events::Event;
    fn attrs(s: &quick_xml::events::BytesStart) -> Result<(), String> {
        for a in s.attributes() {
            let a = a.map_err(|e| format!("quick-xml attribute: {e}"))?;
            a.unescape_value().map_err(|e| format!("quick-xml attribute value: {e}"))?;
        }
        Ok(())
    }
    let mut r = quick_xml::Reader::from_reader(b);
    let mut buf = Vec::new();
    let (mut depth, mut roots) = (0usize, 0usize);
    loop {
        buf.clear();
        match r.read_event_into(&mut buf).map_err(|e| format!("quick-xml: {e}"))? {
            Event::Start(s) => { attrs(&s)?; if depth == 0 { roots += 1 } depth += 1 }
            Event::Empty(s) => { attrs(&s)?; if depth == 0 { roots += 1 } }
            Event::End(_) => { if depth == 0 { return Err("quick-xml: end tag at top level".into()) } depth -= 1 }
            Event::Text(t) => {
                let s = t.decode().map_err(|e| format!("quick-xml text: {e}"))?;
                if depth == 0 && !s.trim().is_empty() { return Err("quick-xml: text outside the root".into()) }
            }
            Event::GeneralRef(g) => {
                if depth == 0 { return Err("quick-xml: reference outside the root".into()) }
                if g.is_char_ref() {
                    g.resolve_char_ref().map_err(|e| format!("quick-xml char ref: {e}"))?.ok_or("quick-xml: bad char ref")?;
                } else {
                    let n = g.decode().map_err(|e| format!("quick-xml ref: {e}"))?;
                    if !matches!(n.as_ref(), "lt" | "gt" | "amp" | "quot" | "apos") { return Err(format!("quick-xml: unknown entity {n}")) }
                }
            }
            Event::CData(_) => { if depth == 0 { return Err("quick-xml: CDATA outside the root".into()) } }
            Event::DocType(_) => return Err("quick-xml: DOCTYPE".into()),
            Event::Comment(_) | Event::Decl(_) | Event::PI(_) => {}
            Event::Eof => break,
        }
    }
    if depth != 0 { return Err("quick-xml: unclosed element at end of input".into()) }
    if roots != 1 { return Err(format!("quick-xml: {roots} root elements")) }
    Ok(())
}

/// The checker must itself be able to fail: a table of documents that break
/// exactly one rule each, and documents that use every permitted construct.
fn wf_selftest(ctx: &Ctx) {
    let sp = ctx.space("wf.selftest",
        "the strict checker of this file on hand-written documents: each bad document breaks one well-formedness rule and must be refused, each good one must be accepted; non-trivial = every document (all distinct)");
    let bad: &[&[u8]] = &[
        b"", b"   ", b"<a>", b"<a></b>", b"<a/><b/>", b"<a x=1/>", b"<a x=\"1\" x=\"2\"/>", b"<a x=\"<\"/>",
        b"<a x=\"&\"/>", b"<a x=\"a&b\"/>", b"<a>&</a>", b"<a>&foo;</a>", b"<a>&amp</a>", b"<a>]]></a>", b"<a x=\"1\"y=\"2\"/>",
        b"<a>\x00</a>", b"<a>\xff</a>", b"<a>\x01</a>", b"text<a/>", b"<a/>text", b"<a x=\"1/>", b"<a x/>", b"<1a/>",
        b"<a><!-- -- --></a>", b"<a>&#0;</a>", b"<a>&#xD800;</a>", b"<a>&#;</a>", b"<p:a/>", b"<a p:x=\"1\"/>", b"<a", b"<a/",
        b"< a/>", b"<a><b></a></b>", b"<a x='1\"/>", b"<a><</a>", b"<!DOCTYPE a><a/>", b"<a/><?xml version=\"1.0\"?>",
        b"<a tag=\"\"\"/>", b"<a>\xef\xbf\xbe</a>", b"<a><![CDATA[x</a>", b"<a x=\"1\" />x", b"<a:b:c/>",
    ];
    let good: &[&[u8]] = &[
        b"<a/>", b"<a x=\"1\" y='2'/>", b"<a>\n</a>", b"<a></a >", b"<a x = '1'\n/>",
        b"<?xml version=\"1.0\"?>\n<!--c--><a>t&amp;&#60;&#x3c;&lt;&gt;&quot;&apos;<b/><!--c--><?pi x?><![CDATA[<&]]>\"'></a>\n<!--d-->\n",
        b"<a xmlns=\"u\" xmlns:p=\"v\"><p:b p:c=\"\" xml:lang=\"en\"/></a>", b"<a x=\"&lt;&amp;&quot;'>\" y='\"'/>",
        "<a x=\"\u{e9}\">\u{20ac}</a>".as_bytes(),
    ];
    let mut qx_bad_rejected = 0;
    for d in bad {
        sp.eval(); sp.nontrivial(1);
        match wf_check(d) {
            Err(_) => sp.outcome("bad-refused"),
            Ok(_) => { sp.outcome("bad-ACCEPTED"); ctx.machinery_error(format!("wf checker accepts malformed {:?}", String::from_utf8_lossy(d))) }
        }
        if qx_check(d).is_err() { qx_bad_rejected += 1 }
    }
    for d in good {
        sp.eval(); sp.nontrivial(1);
        match wf_check(d) {
            Ok(_) => sp.outcome("good-accepted"),
            Err(e) => { sp.outcome("good-REFUSED"); ctx.machinery_error(format!("wf checker refuses well-formed {:?}: {e}", String::from_utf8_lossy(d))) }
        }
        if let Err(e) = qx_check(d) { ctx.machinery_error(format!("quick-xml cross-check refuses well-formed {:?}: {e}", String::from_utf8_lossy(d))) }
    }
    sp.set("quickxml_refused_bad", serde_json::json!(format!("{qx_bad_rejected} of {}", bad.len())));
    sp.sample_str(|| format!("refused: {:?}", wf_check(b"<a x=\"a&b\"/>").err()));
    sp.sample_str(|| format!("refused: {:?}", wf_check(b"<a tag=\"\"\"/>").err()));
    sp.done(true, &format!("{} bad + {} good documents", bad.len(), good.len()));
}

//============ Alphabets =====================================================

/// All sequences of at most `max` units, shortlex, that are xsd:token values
/// (no leading / trailing / doubled space; tab, CR, LF are not in the units).
fn token_strings(units: &[&str], max: usize) -> Vec<String> {
    let mut out = vec![String::new()];
    let mut layer = vec![String::new()];
    for _ in 0..max {
        let mut next = Vec::new();
        for s in &layer { for u in units { next.push(format!("{s}{u}")) } }
        out.extend(next.iter().cloned());
        layer = next;
    }
    out.retain(|s| !s.starts_with(' ') && !s.ends_with(' ') && !s.contains("  "));
    out.sort_by(|a, b| (a.len(), a).cmp(&(b.len(), b)));
    out.dedup();
    out
}

const TEXT_UNITS: &[&str] = &["a", "Z", "1", " ", "<", ">", "&", "\"", "'", "]]>", "&amp;", "&#60;", ";", "=", "/", "\\", "\x7f"];
const HANDLE_UNITS: &[&str] = &["a", "Z", "0", "9", "-", "_", "/"];

/// Returns the alphabet and the size of its "mid" prefix (strings of at most
/// two units plus the long values); strings of three units follow the prefix.
fn text_alphabet(max: usize) -> (Vec<String>, usize) {
    let mut v = token_strings(TEXT_UNITS, 2);
    for (c, n) in [("a", 255), ("a", 256), ("a", 1024), ("&", 1024), ("<", 256), ("\"", 255), ("'", 255), ("]]>", 341), ("a b", 256)] {
        v.push(c.repeat(n).chars().take(1024).collect());
    }
    let mid = v.len();
    if max > 2 {
        let have: HashSet<String> = v.iter().cloned().collect();
        v.extend(token_strings(TEXT_UNITS, max).into_iter().filter(|s| !have.contains(s)));
    }
    (v, mid)
}

fn handle_alphabet(max: usize) -> (Vec<String>, usize) {
    let mut v = token_strings(HANDLE_UNITS, 2);
    v.retain(|s| !s.is_empty());
    for (c, n) in [("a", 254), ("a", 255), ("/", 255), ("-", 255), ("_", 255)] { v.push(c.repeat(n)) }
    let mid = v.len();
    if max > 2 {
        let have: HashSet<String> = v.iter().cloned().collect();
        v.extend(token_strings(HANDLE_UNITS, max).into_iter().filter(|s| !s.is_empty() && !have.contains(s)));
    }
    (v, mid)
}

const URI_PUNCT: &str = "!$%&'()*+,-.:;=_~";

/// Alphabet entries a constructor refused. Never silently dropped: listed in
/// the evidence (a refusal is not judged, the property only speaks about
/// messages that can be constructed).
static REFUSED: Mutex<Vec<String>> = Mutex::new(Vec::new());

fn admitted<T, E>(kind: &str, inputs: &[String], f: impl Fn(&str) -> Result<T, E>) -> Vec<T> {
    inputs.iter().filter_map(|x| match f(x) {
        Ok(v) => Some(v),
        Err(_) => { REFUSED.lock().unwrap().push(format!("{kind}: {}", trunc(x, 60))); None }
    }).collect()
}

/// Spellings of a scheme that compare equal case-insensitively.
fn scheme_cases(scheme: &str) -> Vec<String> {
    let lower = scheme.to_ascii_lowercase();
    let upper = scheme.to_ascii_uppercase();
    let title: String = lower.chars().enumerate().map(|(i, c)| if i == 0 { c.to_ascii_uppercase() } else { c }).collect();
    let alt: String = lower.chars().enumerate().map(|(i, c)| if i % 2 == 1 { c.to_ascii_uppercase() } else { c }).collect();
    let last: String = lower.chars().enumerate().map(|(i, c)| if i + 1 == lower.len() { c.to_ascii_uppercase() } else { c }).collect();
    vec![lower, upper, title, alt, last]
}

fn rsync_alphabet() -> Vec<uri::Rsync> {
    // the first entries are referred to by index (cores): append only
    let mut s: Vec<String> = vec![
        "rsync://h/m/".into(), "rsync://h/m/a".into(), "rsync://host.example:873/module/dir/file.cer".into(),
        "rsync://h/m/a&b'c".into(), "rsync://a&b/m'/x".into(), "rsync://h/m/&amp;&lt;&#39;".into(), "RSYNC://H/M/A".into(),
        "rsync://h/m/''&&".into(),
    ];
    for c in URI_PUNCT.chars() { s.push(format!("rsync://h/m/a{c}b")); }
    s.push(format!("rsync://h/m/{}", "a".repeat(4000)));
    s.push(format!("rsync://h/m/{}", "&'".repeat(2000)));
    // scheme, authority, module and path in every letter case
    for sc in scheme_cases("rsync").into_iter().skip(1) { s.push(format!("{sc}://h/m/a")) }
    for x in ["rsync://HOST.Example/m/a", "rsync://h/Module/a", "rsync://h/m/Dir/File.CER", "RSYNC://HOST.EXAMPLE:873/MODULE/DIR/FILE.CER", "rsync://[2001:db8::1]/m/x/"] { s.push(x.into()) }
    admitted("rsync", &s, uri::Rsync::from_str)
}

fn https_strings() -> Vec<String> {
    let mut s: Vec<String> = vec![
        "https://h".into(), "https://h/".into(), "https://h/rrdp/notification.xml".into(), "https://a&b'c/x".into(),
        "https://h/a&b=c&d='e'".into(), "HTTPS://H/X".into(), "https://h:8443/&amp;&quot;".into(),
    ];
    for c in URI_PUNCT.chars() { s.push(format!("https://h/p{c}q")); }
    s.push(format!("https://h/{}", "&".repeat(4000)));
    for sc in scheme_cases("https").into_iter().skip(1) { s.push(format!("{sc}://h/x")); s.push(format!("{sc}://h")) }
    for x in ["https://HOST.Example/x", "https://h/Rrdp/Notification.XML", "HTTPS://HOST.EXAMPLE:8443/RRDP/NOTIFICATION.XML"] { s.push(x.into()) }
    s
}

fn https_alphabet() -> Vec<uri::Https> { admitted("https", &https_strings(), uri::Https::from_str) }

const SVC_PLAIN: &str = "https://h/rrdp/notification.xml";
const SVC_SPECIAL: &str = "http://h/a?b=c&d='e'#f";

/// Service URIs are built through the public enum variants, not through
/// ServiceUri::from_str, so that what from_str (used by the parsers) makes of
/// the written value is judged by the round trip instead of deciding what is
/// in the alphabet.
fn service_alphabet() -> Vec<idx::ServiceUri> {
    let mut out: Vec<idx::ServiceUri> = https_alphabet().into_iter().map(idx::ServiceUri::Https).collect();
    let mut s: Vec<String> = Vec::new();
    for x in ["http://h", "http://h/", SVC_SPECIAL, "HTTP://H/", "http://u@h:8080/[x]", "http://h/%20%26",
              "http://h/rfc6492/a&b", "http://h/?&&&'''"] { s.push(x.to_string()) }
    for c in "?#@[]".chars() { s.push(format!("http://h/p{c}q")) }
    s.push(format!("http://h/{}", "a&".repeat(2000)));
    for sc in scheme_cases("http").into_iter().skip(1) { s.push(format!("{sc}://h/x")); s.push(format!("{sc}://h")); s.push(format!("{sc}://H/a&b")) }
    for x in ["http://HOST.Example/Path/Up-Down", "HTTP://HOST.EXAMPLE:8080/RFC6492/A"] { s.push(x.into()) }
    out.extend(s.iter().map(|x| idx::ServiceUri::Http(x.clone())));
    // and whatever the other public constructors make of the same strings (FromStr, TryFrom<String>)
    for x in s.iter().chain(https_strings().iter()) {
        for v in [idx::ServiceUri::from_str(x), idx::ServiceUri::try_from(x.clone())] {
            match v {
                Ok(v) => if !out.contains(&v) { out.push(v) },
                Err(_) => REFUSED.lock().unwrap().push(format!("service_uri: {}", trunc(x, 60))),
            }
        }
    }
    out
}

fn content_alphabet(cert: &[u8]) -> Vec<Vec<u8>> {
    vec![vec![], vec![0], vec![0xff, 0xfe], b"abc".to_vec(), b"<&\"'".to_vec(), vec![0xA5; 1024], cert.to_vec(), vec![0xfb, 0xff, 0xbf, 0x3e, 0x3f]]
}

fn hash_alphabet() -> Vec<Hash> {
    let mut seq = [0u8; 32]; for (i, b) in seq.iter_mut().enumerate() { *b = (i * 8 + 3) as u8 }
    vec![Hash::from([0u8; 32]), Hash::from([0xff; 32]), Hash::from(seq)]
}

fn key_alphabet() -> Vec<KeyIdentifier> {
    let mut seq = [0u8; 20]; for (i, b) in seq.iter_mut().enumerate() { *b = (i * 13 + 1) as u8 }
    let mut url = [0xfbu8; 20]; url[1] = 0xef; url[2] = 0xbe; url[19] = 0xff;
    vec![KeyIdentifier::from([0u8; 20]), KeyIdentifier::from([0xff; 20]), KeyIdentifier::from(seq), KeyIdentifier::from(url)]
}

const AS_ATOMS: &[&str] = &["", "AS0", "AS4294967295", "AS1-AS2", "AS0-AS4294967295", "AS1, AS3-AS5, AS7", "AS64496-AS64511, AS4200000000"];
/// other spellings the FromStr constructors admit (letter case of the AS prefix, no prefix, no blanks, degenerate range)
const AS_EXTRA: &[&str] = &["as1-As2", "1-2,5", "AS5-AS5", "7"];
const V4_ATOMS: &[&str] = &["", "0.0.0.0/0", "10.0.0.0/8", "10.0.0.0-10.0.0.255", "10.0.0.1-10.0.0.2", "192.168.0.1", "255.255.255.255/32",
    "10.0.0.0/8, 192.168.0.0-192.168.0.9", "0.0.0.0-255.255.255.255", "0.0.0.0/1, 128.0.0.0/2"];
const V4_EXTRA: &[&str] = &["10.0.0.0/8,192.168.0.1", " 10.0.0.0/24 ,  10.0.2.0-10.0.2.255 "];
const V6_ATOMS: &[&str] = &["", "::/0", "2001:db8::/32", "::1", "2001:db8::1-2001:db8::5", "ffff:ffff:ffff:ffff:ffff:ffff:ffff:ffff/128",
    "::ffff:102:304/128", "2001:db8::/32, 2001:db9::1-2001:db9::ffff", "::-ffff:ffff:ffff:ffff:ffff:ffff:ffff:ffff"];
/// upper-case hex digits, uncompressed groups, leading zeros, upper-case mapped prefix
const V6_EXTRA: &[&str] = &["2001:DB8::/32", "2001:db8:0:0:0:0:0:0/32,2001:0DB9::1", "::FFFF:1.2.3.0/120"];

fn time_alphabet() -> Vec<Time> {
    vec![Time::utc(2030, 1, 2, 3, 4, 5), Time::utc(1970, 1, 1, 0, 0, 0), Time::utc(9999, 12, 31, 23, 59, 59),
         Time::utc(1, 1, 1, 0, 0, 0), Time::utc(2024, 2, 29, 12, 0, 0)]
}

/// Index tuples of a "star" product: every coordinate ranges over
/// 0..full[i]; at most `k` coordinates may leave their core set.
fn star(full: &[usize], core: &[&[usize]], k: usize) -> Vec<Vec<usize>> {
    fn rec(i: usize, full: &[usize], core: &[&[usize]], budget: usize, cur: &mut Vec<usize>, out: &mut Vec<Vec<usize>>) {
        if i == full.len() { out.push(cur.clone()); return }
        for v in 0..full[i] {
            let in_core = core[i].contains(&v);
            if !in_core && budget == 0 { continue }
            cur.push(v);
            rec(i + 1, full, core, budget - usize::from(!in_core), cur, out);
            cur.pop();
        }
    }
    let mut out = Vec::new();
    rec(0, full, core, k, &mut Vec::new(), &mut out);
    out
}

/// star(mid, core, k) plus, for every coordinate, its values beyond the mid
/// prefix with all other coordinates on their core (no tuple twice).
fn star2(full: &[usize], mid: &[usize], core: &[&[usize]], k: usize) -> Vec<Vec<usize>> {
    let mut out = star(mid, core, k);
    for i in 0..full.len() {
        if full[i] <= mid[i] { continue }
        let mut dims: Vec<usize> = mid.to_vec();
        dims[i] = full[i];
        for t in star(&dims, core, 1) { if t[i] >= mid[i] { out.push(t) } }
    }
    out
}

fn fnv64(b: &[u8]) -> u64 {
    let mut h = 0xcbf29ce484222325u64;
    for x in b { h ^= *x as u64; h = h.wrapping_mul(0x100000001b3); }
    h
}

fn show(s: &str) -> String { format!("{:?}", s) }
fn show_opt(s: &Option<String>) -> String { match s { None => "None".into(), Some(s) => format!("Some({:?})", trunc(s, 80)) } }
fn show_bytes(b: &[u8]) -> String { if b.len() <= 8 { format!("hex:{}", hex(b)) } else { format!("{}octets:fnv{:016x}", b.len(), fnv64(b)) } }

//============ Fixtures ======================================================

struct Fx {
    certs: Vec<(&'static str, Cert)>,
    csrs: Vec<(&'static str, RpkiCaCsr)>,
    idcerts: Vec<(&'static str, Vec<u8>)>,
    texts: Vec<String>,
    texts_mid: usize,
    handles: Vec<String>,
    handles_mid: usize,
    h_a255: usize,
    h_slash255: usize,
    rsyncs: Vec<uri::Rsync>,
    httpss: Vec<uri::Https>,
    services: Vec<idx::ServiceUri>,
    svc_plain: usize,
    svc_special: usize,
    contents: Vec<Vec<u8>>,
    hashes: Vec<Hash>,
    keys: Vec<KeyIdentifier>,
    asn: Vec<AsBlocks>,
    v4: Vec<Ipv4Blocks>,
    v6: Vec<Ipv6Blocks>,
    times: Vec<Time>,
}

fn read(rel: &str) -> Vec<u8> {
    let p = format!("{}/test-data/{rel}", repo_dir());
    std::fs::read(&p).unwrap_or_else(|e| { eprintln!("MACHINERY-ERROR: cannot read {p}: {e}"); std::process::exit(2) })
}

fn cms_xml(rel: &str) -> Vec<u8> {
    let msg = SignedMessage::decode(read(rel).as_slice(), false).expect("test-data CMS decodes");
    msg.content().to_bytes().to_vec()
}

impl Fx {
    fn load(ctx: &Ctx) -> Fx { Fx::load_opt(ctx, true) }
    /// `xml` = false: no XML is parsed while the fixtures are built (value constructors and DER decoding only); the
    /// CSR and the certificate that come out of captured RFC 6492 documents are replaced by copies of captured DER ones.
    fn load_opt(ctx: &Ctx, xml: bool) -> Fx {
        let mut certs = Vec::new();
        for (n, p) in [("ta", "repository/ta.cer"), ("ca1", "repository/ca1.cer"), ("router", "repository/router.cer")] {
            match Cert::decode(read(p).as_slice()) { Ok(c) => certs.push((n, c)), Err(e) => ctx.machinery_error(format!("fixture {p}: {e}")) }
        }
        let mut csrs = Vec::new();
        match RpkiCaCsr::decode(read("ca/drl-csr.der").as_slice()) { Ok(c) => csrs.push(("drl", c)), Err(e) => ctx.machinery_error(format!("fixture drl-csr: {e}")) }
        // a second CSR and further certificates: out of the captured RFC 6492 exchanges
        if !xml {
            if let Some(c) = csrs.first().cloned() { csrs.push(("copy of drl", c.1)) }
            if let Some(c) = certs.get(1).cloned() { certs.push(("copy of ca1", c.1)) }
        }
        else {
        if let Ok(m) = prov::Message::decode(cms_xml("ca/rfc6492/issue.der").as_slice()) {
            if let prov::Payload::Issue(r) = m.into_payload() { csrs.push(("issue.der", r.unpack().2)) }
        }
        if let Ok(m) = prov::Message::decode(cms_xml("ca/rfc6492/issue-response.der").as_slice()) {
            if let prov::Payload::IssueResponse(r) = m.into_payload() { certs.push(("issued", r.into_issued().unpack().2)) }
        }
        }
        let idcerts = vec![("id_ta", read("ca/id_ta.cer")), ("id_afrinic", read("ca/id_afrinic.cer")),
            ("1octet", vec![0x30]), ("2octets", vec![0xff, 0x00]), ("4octets", b"<&\"'".to_vec()), ("1KiB", vec![0x5A; 1024])];
        let max = ctx.tier.pick(2, 3);
        let (texts, texts_mid) = text_alphabet(max);
        let (handles, handles_mid) = handle_alphabet(max);
        let services = service_alphabet();
        Fx {
            h_a255: handles.iter().position(|h| *h == "a".repeat(255)).unwrap(),
            h_slash255: handles.iter().position(|h| *h == "/".repeat(255)).unwrap(),
            texts_mid, handles_mid,
            contents: content_alphabet(certs[0].1.to_captured().as_slice()),
            certs, csrs, idcerts,
            texts, handles,
            rsyncs: rsync_alphabet(), httpss: https_alphabet(),
            svc_plain: services.iter().position(|u| u.as_str() == SVC_PLAIN).expect("plain service uri"),
            svc_special: services.iter().position(|u| u.as_str() == SVC_SPECIAL).expect("special service uri"),
            services,
            hashes: hash_alphabet(), keys: key_alphabet(),
            asn: AS_ATOMS.iter().map(|s| AsBlocks::from_str(s).expect("AS atom")).chain([AsBlocks::all(), AsBlocks::empty()])
                .chain(admitted("as", &AS_EXTRA.iter().map(|s| s.to_string()).collect::<Vec<_>>(), AsBlocks::from_str)).collect(),
            v4: V4_ATOMS.iter().map(|s| Ipv4Blocks::from_str(s).expect("v4 atom")).chain([Ipv4Blocks::all(), Ipv4Blocks::empty()])
                .chain(admitted("ipv4", &V4_EXTRA.iter().map(|s| s.to_string()).collect::<Vec<_>>(), Ipv4Blocks::from_str)).collect(),
            v6: V6_ATOMS.iter().map(|s| Ipv6Blocks::from_str(s).expect("v6 atom")).chain([Ipv6Blocks::all(), Ipv6Blocks::empty()])
                .chain(admitted("ipv6", &V6_EXTRA.iter().map(|s| s.to_string()).collect::<Vec<_>>(), Ipv6Blocks::from_str)).collect(),
            times: time_alphabet(),
        }
    }
    /// tag alphabet: index 0 = None, 1 = Some(""), then Some(text) for every non-empty text
    fn n_tags(&self) -> usize { self.texts.len() + 1 }
    fn n_tags_mid(&self) -> usize { self.texts_mid + 1 }
    fn n_classes_mid(&self) -> usize { self.texts_mid - 1 }
    fn tag(&self, i: usize) -> Option<String> { if i == 0 { None } else { Some(self.texts[i - 1].clone()) } }
    /// class names: xsd:token with minLength 1 -> texts without the empty one (texts[0] == "")
    fn n_classes(&self) -> usize { self.texts.len() - 1 }
    fn class(&self, i: usize) -> prov::ResourceClassName { prov::ResourceClassName::from(self.texts[i + 1].as_str()) }
    fn handle<T>(&self, i: usize) -> idx::Handle<T> { idx::Handle::from_str(&self.handles[i]).expect("handle alphabet is valid") }
    /// limit alphabets: index 0 = None, then Some(atom)
    fn limit(&self, a: usize, b: usize, c: usize) -> prov::RequestResourceLimit {
        let mut l = prov::RequestResourceLimit::new();
        if a > 0 { l.with_asn(self.asn[a - 1].clone()) }
        if b > 0 { l.with_ipv4(self.v4[b - 1].clone()) }
        if c > 0 { l.with_ipv6(self.v6[c - 1].clone()) }
        l
    }
}

//============ Accessor sweep ================================================
//
// "Equal" is also judged through the public accessors: every message that is
// enumerated answers all its accessors (a) consistently with each other
// (unpack / into_* agree with the by-reference accessors, convenience
// variants with their siblings), (b) identically to its parsed twin and
// (c), where the enumeration knows the constructor arguments, with exactly
// what was put in. Differential throughout, no literal expectations.

trait Sweep: Sized {
    /// All accessor answers, rendered. Err = two accessors of one value disagree.
    fn sweep(&self) -> Result<Vec<String>, String>;
}

macro_rules! agree { ($a:expr, $b:expr, $what:expr) => { match (&$a, &$b) { (a, b) => if a != b { return Err(format!("{}: {:?} vs {:?}", $what, a, b)) } } } }

fn sweep_base64(b: &Base64, what: &str, o: &mut Vec<String>) -> Result<(), String> {
    let bytes = b.to_bytes();
    let indep = base64::Engine::encode(&base64::engine::general_purpose::STANDARD, bytes.as_ref());
    agree!(b.as_str(), indep.as_str(), format!("{what}: Base64::as_str vs an independent encoding of to_bytes()"));
    agree!(b.to_string(), indep, format!("{what}: Base64 Display vs as_str"));
    agree!(b.to_hash(), Hash::from_data(bytes.as_ref()), format!("{what}: Base64::to_hash vs Hash::from_data(to_bytes())"));
    let approx = b.size_approx();
    // documented: "We can be off by up to 3 bytes"
    if approx < bytes.len() || approx - bytes.len() > 3 { return Err(format!("{what}: size_approx() = {approx} for {} octets", bytes.len())) }
    o.push(format!("{what}={}", show_bytes(bytes.as_ref())));
    Ok(())
}

fn sweep_handle<T: Clone>(h: &idx::Handle<T>, what: &str, o: &mut Vec<String>) -> Result<(), String> {
    let s = h.as_str().to_string();
    agree!(h.name().as_ref(), s.as_str(), format!("{what}: Handle::name vs as_str"));
    agree!(h.clone().into_name().as_ref(), s.as_str(), format!("{what}: into_name"));
    agree!(h.convert::<idx::Myself>().as_str(), s.as_str(), format!("{what}: convert"));
    agree!(h.clone().into_converted::<idx::Parent>().as_str(), s.as_str(), format!("{what}: into_converted"));
    agree!(h.to_string(), s, format!("{what}: Display"));
    agree!(AsRef::<[u8]>::as_ref(h), s.as_bytes(), format!("{what}: AsRef<[u8]>"));
    let path = h.to_path_buf();
    match idx::Handle::<T>::try_from(&path) {
        Ok(back) => agree!(back.as_str(), s.as_str(), format!("{what}: Handle::try_from(&to_path_buf())")),
        Err(_) => return Err(format!("{what}: to_path_buf() = {path:?} is refused by Handle::try_from")),
    }
    o.push(format!("{what}={s} path={path:?}"));
    Ok(())
}

fn show_req_limit(l: &prov::RequestResourceLimit) -> Result<String, String> {
    agree!(l.is_empty(), l.asn().is_none() && l.ipv4().is_none() && l.ipv6().is_none(), "RequestResourceLimit::is_empty vs the three accessors");
    Ok(format!("limit({:?},{:?},{:?})", l.asn().map(|x| x.to_string()), l.ipv4().map(|x| x.to_string()), l.ipv6().map(|x| x.to_string())))
}

fn cert_id(c: &Cert) -> String { format!("cert:fnv{:016x}", fnv64(c.to_captured().as_slice())) }

fn sweep_issued(i: &prov::IssuedCert, o: &mut Vec<String>) -> Result<(), String> {
    let (uri, limit, cert) = i.clone().unpack();
    agree!(&uri, i.uri(), "IssuedCert::unpack vs uri()");
    agree!(&limit, i.req_limit(), "IssuedCert::unpack vs req_limit()");
    agree!(cert_id(&cert), cert_id(i.cert()), "IssuedCert::unpack vs cert()");
    o.push(format!("certificate(uri={},{},{})", i.uri(), show_req_limit(i.req_limit())?, cert_id(i.cert())));
    Ok(())
}

fn sweep_class(c: &prov::ResourceClassEntitlements, o: &mut Vec<String>) -> Result<(), String> {
    o.push(format!("class(name={:?},set=[{}|{}|{}],notafter={},issuer={} at {})", c.class_name().as_ref(), c.resource_set().asn(), c.resource_set().ipv4(),
        c.resource_set().ipv6(), c.not_after().to_rfc3339(), cert_id(c.signing_cert().cert()), c.signing_cert().url()));
    for i in c.issued_certs() { sweep_issued(i, o)? }
    // into_issuance_response(key): the first certificate issued to that key, or None
    let mut keys: Vec<&rpki::crypto::PublicKey> = Vec::new();
    for k in c.issued_certs().iter().map(|i| i.cert().subject_public_key_info()).chain([c.signing_cert().cert().subject_public_key_info()]) {
        if !keys.contains(&k) { keys.push(k) }   // one probe per distinct key
    }
    for k in keys {
        let first = c.issued_certs().iter().find(|i| i.cert().subject_public_key_info() == k);
        let got = c.clone().into_issuance_response(k);
        match (first, got) {
            (None, None) => o.push("into_issuance_response=None".into()),
            (Some(i), Some(r)) => {
                let want = prov::IssuanceResponse::new(c.class_name().clone(), c.resource_set().clone(), c.not_after(), i.clone(), c.signing_cert().clone());
                if r != want { return Err("into_issuance_response(key) differs from IssuanceResponse::new over the accessors".into()) }
                agree!(&r.into_issued(), i, "into_issuance_response(key).into_issued()");
                o.push("into_issuance_response=Some".into());
            }
            (f, g) => return Err(format!("into_issuance_response(key): certificate for the key present = {}, result is_some = {}", f.is_some(), g.is_some())),
        }
    }
    Ok(())
}

impl Sweep for prov::Message {
    fn sweep(&self) -> Result<Vec<String>, String> {
        let mut o = Vec::new();
        sweep_handle(self.sender(), "sender", &mut o)?;
        sweep_handle(self.recipient(), "recipient", &mut o)?;
        let (s, r, p) = self.clone().unpack();
        agree!(&s, self.sender(), "Message::unpack vs sender()");
        agree!(&r, self.recipient(), "Message::unpack vs recipient()");
        agree!(&p, self.payload(), "Message::unpack vs payload()");
        agree!(&self.clone().into_payload(), self.payload(), "into_payload vs payload()");
        agree!(self.is_list_response(), matches!(self.payload(), prov::Payload::ListResponse(_)), "is_list_response vs payload()");
        agree!(self.is_list_response(), self.payload().payload_type().as_ref() == "list_response", "is_list_response vs payload_type()");
        o.push(format!("type={}", self.payload().payload_type()));
        match self.payload() {
            prov::Payload::List => {}
            prov::Payload::ListResponse(l) => { o.push(format!("classes={}", l.classes().len())); for c in l.classes() { sweep_class(c, &mut o)? } }
            prov::Payload::Issue(r) => {
                let (n, l, c) = r.clone().unpack();
                agree!(&n, r.class_name(), "IssuanceRequest::unpack vs class_name()");
                agree!(&l, r.limit(), "IssuanceRequest::unpack vs limit()");
                agree!(fnv64(c.to_captured().as_slice()), fnv64(r.csr().to_captured().as_slice()), "IssuanceRequest::unpack vs csr()");
                o.push(format!("request(class={:?},{},csr:fnv{:016x},{})", r.class_name().as_ref(), show_req_limit(r.limit())?, fnv64(r.csr().to_captured().as_slice()), r));
            }
            prov::Payload::IssueResponse(r) => sweep_issued(&r.clone().into_issued(), &mut o)?,
            prov::Payload::Revoke(r) => {
                let (n, k) = r.clone().unpack();
                agree!(&n, r.class_name(), "RevocationRequest::unpack vs class_name()");
                agree!(k, r.key(), "RevocationRequest::unpack vs key()");
                let el: &prov::KeyElement = r;
                agree!(el.class_name(), r.class_name(), "KeyElement::class_name vs RevocationRequest::class_name");
                agree!(*el.key(), r.key(), "KeyElement::key vs RevocationRequest::key");
                agree!(prov::RevocationResponse::from(r), prov::RevocationResponse::new(el.clone()), "RevocationResponse::from(&request) vs ::new(key element)");
                o.push(format!("key(class={:?},ski={}) {el}", r.class_name().as_ref(), r.key()));
            }
            prov::Payload::RevokeResponse(r) => { let el: &prov::KeyElement = r; o.push(format!("key(class={:?},ski={}) {el}", el.class_name().as_ref(), el.key())) }
            prov::Payload::ErrorResponse(e) => {
                let shown = e.to_string();
                let want = match e.description() { None => e.status().to_string(), Some(d) => format!("{} - {}", e.status(), d) };
                agree!(shown, want, "NotPerformedResponse Display vs status() / description()");
                o.push(format!("status={} description={:?}", e.status(), e.description()));
            }
        }
        Ok(o)
    }
}

fn sweep_tagged(kind: &str, tag: Option<&String>, uri: &uri::Rsync, content: Option<&Base64>, hash: Option<&Hash>, o: &mut Vec<String>) -> Result<(), String> {
    if let Some(c) = content { sweep_base64(c, "content", o)? }
    o.push(format!("{kind}(tag={tag:?},uri={uri},hash={:?})", hash.map(|h| h.to_string())));
    Ok(())
}

impl Sweep for publ::Message {
    fn sweep(&self) -> Result<Vec<String>, String> {
        let mut o = Vec::new();
        match (self, self.clone().as_query(), self.clone().as_reply()) {
            (publ::Message::Query(q), Ok(q2), Err(_)) => agree!(q, &q2, "as_query vs the variant"),
            (publ::Message::Reply(r), Err(_), Ok(r2)) => agree!(r, &r2, "as_reply vs the variant"),
            _ => return Err("as_query / as_reply disagree with the variant".into()),
        }
        match self {
            publ::Message::Query(publ::Query::List) => o.push("query.list".into()),
            publ::Message::Query(publ::Query::Delta(d)) => {
                let els = d.clone().into_elements();
                agree!(d.len(), els.len(), "PublishDelta::len vs into_elements()");
                agree!(d.is_empty(), els.is_empty(), "PublishDelta::is_empty vs into_elements()");
                agree!(&(d.clone() + publ::PublishDelta::empty()), d, "delta + empty");
                for el in els { match el {
                    publ::PublishDeltaElement::Publish(p) => {
                        let (t, u, c) = p.clone().unpack();
                        agree!(t.as_ref(), p.tag(), "Publish::unpack vs tag()"); agree!(&u, p.uri(), "Publish::unpack vs uri()"); agree!(&c, p.content(), "Publish::unpack vs content()");
                        sweep_tagged("publish", p.tag(), p.uri(), Some(p.content()), None, &mut o)?;
                    }
                    publ::PublishDeltaElement::Update(p) => {
                        let (t, u, c, h) = p.clone().unpack();
                        agree!(t.as_ref(), p.tag(), "Update::unpack vs tag()"); agree!(&u, p.uri(), "Update::unpack vs uri()"); agree!(&c, p.content(), "Update::unpack vs content()"); agree!(&h, p.hash(), "Update::unpack vs hash()");
                        sweep_tagged("update", p.tag(), p.uri(), Some(p.content()), Some(p.hash()), &mut o)?;
                    }
                    publ::PublishDeltaElement::Withdraw(p) => {
                        let (t, u, h) = p.clone().unpack();
                        agree!(t.as_ref(), p.tag(), "Withdraw::unpack vs tag()"); agree!(&u, p.uri(), "Withdraw::unpack vs uri()"); agree!(&h, p.hash(), "Withdraw::unpack vs hash()");
                        sweep_tagged("withdraw", p.tag(), p.uri(), None, Some(p.hash()), &mut o)?;
                    }
                }}
            }
            publ::Message::Reply(publ::Reply::List(l)) => {
                let els = l.clone().into_elements();
                agree!(&els, l.elements(), "ListReply::into_elements vs elements()");
                let wd = l.clone().into_withdraw_delta();
                agree!(wd.len(), els.len(), "into_withdraw_delta().len() vs elements()");
                let mut want = publ::PublishDelta::empty();
                for e in &els {
                    let (u, h) = e.clone().unpack();
                    agree!(&u, e.uri(), "ListElement::unpack vs uri()"); agree!(&h, e.hash(), "ListElement::unpack vs hash()");
                    want.add_withdraw(publ::Withdraw::with_hash_tag(u, h));
                    o.push(format!("list(uri={},hash={})", e.uri(), e.hash()));
                }
                agree!(wd, want, "into_withdraw_delta vs Withdraw::with_hash_tag over the elements");
            }
            publ::Message::Reply(publ::Reply::Success) => o.push("success".into()),
            publ::Message::Reply(publ::Reply::ErrorReply(e)) => {
                o.push(format!("errors={} {e}", e.errors().len()));
                for r in e.errors() { o.push(format!("{r:?}")) }
            }
        }
        Ok(o)
    }
}

// The sibling's verdict per (ID certificate content, instant); instant 0 = "now". Only the reference side is
// remembered, the function under test runs for every message.
thread_local! {
    static SIBLING: std::cell::RefCell<BTreeMap<(u64, i64), Option<(u64, i64, i64)>>> = const { std::cell::RefCell::new(BTreeMap::new()) };
    /// set while the parsed twin of a message is swept in the quick tier: the signature-checking validate()
    /// family is a function of id_cert() alone, which the twin comparison covers; thorough runs it on the twin too
    static SKIP_VALIDATE: std::cell::Cell<bool> = const { std::cell::Cell::new(false) };
}

fn sibling(id: &Base64, key: i64) -> Option<(u64, i64, i64)> {
    let k = (fnv64(id.as_str().as_bytes()), key);
    if let Some(v) = SIBLING.with(|m| m.borrow().get(&k).copied()) { return v }
    let when = if key == 0 { Time::now() } else { Time::new(chrono::DateTime::from_timestamp(key, 0).unwrap()) };
    let v = idx::validate_idcert_at(id, when).ok().map(|c| (fnv64(c.to_captured().as_slice()), c.validity().not_before().timestamp(), c.validity().not_after().timestamp()));
    SIBLING.with(|m| m.borrow_mut().insert(k, v));
    v
}

/// validate() is validate_at(now): same verdict, same certificate.
fn sweep_validate(id: &Base64, run: &dyn Fn() -> Result<rpki::ca::idcert::IdCert, idx::Error>, o: &mut Vec<String>) -> Result<(), String> {
    if SKIP_VALIDATE.get() { return Ok(()) }
    let got = run();
    let sib = sibling(id, 0);
    match (&got, &sib) {
        (Ok(a), Some(b)) => agree!(fnv64(a.to_captured().as_slice()), b.0, "validate() vs validate_idcert_at(id_cert(), now): certificate"),
        (Err(_), None) => {}
        _ => return Err(format!("validate() is_ok = {} but validate_idcert_at(id_cert(), Time::now()) is_ok = {}", got.is_ok(), sib.is_some())),
    }
    // decades away from now the sibling's verdict must follow the certificate's own validity, whatever the clock says
    if let Some((_, nb, na)) = sib {
        for t in [Time::utc(1990, 1, 1, 0, 0, 0).timestamp(), Time::utc(2200, 1, 1, 0, 0, 0).timestamp()] {
            agree!(sibling(id, t).is_some(), nb <= t && t <= na, format!("validate_idcert_at at timestamp {t} vs the certificate's own validity"));
        }
    }
    o.push(format!("validate.is_ok={}", got.is_ok()));
    Ok(())
}

fn xml_variants(vec: &dyn Fn() -> Vec<u8>, string: &dyn Fn() -> String, display: &dyn Fn() -> String) -> Result<(), String> {
    if SKIP_VALIDATE.get() { return Ok(()) }   // quick tier, parsed twin: equal to the constructed value, whose three serialisations were compared
    let string = string();
    agree!(string.as_bytes(), vec().as_slice(), "to_xml_string vs to_xml_vec");
    agree!(display(), string, "Display vs to_xml_string");
    Ok(())
}

impl Sweep for idx::ChildRequest {
    fn sweep(&self) -> Result<Vec<String>, String> {
        let mut o = Vec::new();
        sweep_base64(self.id_cert(), "id_cert", &mut o)?;
        sweep_handle(self.child_handle(), "child_handle", &mut o)?;
        let (i, h, t) = self.clone().unpack();
        agree!(&i, self.id_cert(), "unpack vs id_cert()"); agree!(&h, self.child_handle(), "unpack vs child_handle()"); agree!(t.as_ref(), self.tag(), "unpack vs tag()");
        xml_variants(&|| self.to_xml_vec(), &|| self.to_xml_string(), &|| self.to_string())?;
        sweep_validate(self.id_cert(), &|| self.validate(), &mut o)?;
        o.push(format!("tag={:?}", self.tag()));
        Ok(o)
    }
}

impl Sweep for idx::ParentResponse {
    fn sweep(&self) -> Result<Vec<String>, String> {
        let mut o = Vec::new();
        sweep_base64(self.id_cert(), "id_cert", &mut o)?;
        sweep_handle(self.parent_handle(), "parent_handle", &mut o)?;
        sweep_handle(self.child_handle(), "child_handle", &mut o)?;
        agree!(self.service_uri().to_string(), self.service_uri().as_str(), "ServiceUri Display vs as_str");
        xml_variants(&|| self.to_xml_vec(), &|| self.to_xml_string(), &|| self.to_string())?;
        sweep_validate(self.id_cert(), &|| self.validate(), &mut o)?;
        sweep_validate(self.id_cert(), &|| self.validate_at(Time::now()), &mut o)?;
        o.push(format!("service_uri={} tag={:?}", self.service_uri(), self.tag()));
        Ok(o)
    }
}

impl Sweep for idx::PublisherRequest {
    fn sweep(&self) -> Result<Vec<String>, String> {
        let mut o = Vec::new();
        sweep_base64(self.id_cert(), "id_cert", &mut o)?;
        sweep_handle(self.publisher_handle(), "publisher_handle", &mut o)?;
        let (i, h, t) = self.clone().unpack();
        agree!(&i, self.id_cert(), "unpack vs id_cert()"); agree!(&h, self.publisher_handle(), "unpack vs publisher_handle()"); agree!(t.as_ref(), self.tag(), "unpack vs tag()");
        xml_variants(&|| self.to_xml_vec(), &|| self.to_xml_string(), &|| self.to_string())?;
        sweep_validate(self.id_cert(), &|| self.validate(), &mut o)?;
        o.push(format!("tag={:?}", self.tag()));
        Ok(o)
    }
}

impl Sweep for idx::RepositoryResponse {
    fn sweep(&self) -> Result<Vec<String>, String> {
        let mut o = Vec::new();
        sweep_base64(self.id_cert(), "id_cert", &mut o)?;
        sweep_handle(self.publisher_handle(), "publisher_handle", &mut o)?;
        agree!(self.service_uri().to_string(), self.service_uri().as_str(), "ServiceUri Display vs as_str");
        let info = self.repo_info();
        agree!(info.base_uri(), self.sia_base(), "RepoInfo::base_uri vs sia_base()");
        agree!(info.rpki_notify(), self.rrdp_notification_uri(), "RepoInfo::rpki_notify vs rrdp_notification_uri()");
        agree!(info, &idx::RepoInfo::new(self.sia_base().clone(), self.rrdp_notification_uri().cloned()), "repo_info() vs RepoInfo::new over the accessors");
        agree!(&info.ca_repository(""), self.sia_base(), "ca_repository(\"\") vs sia_base()");
        // ca_repository / resolve are sia_base.join(..): compared with the joins done here
        let ns = self.sia_base().join(b"ns/").map_err(|e| format!("sia_base().join(\"ns/\"): {e}"))?;
        agree!(info.ca_repository("ns"), ns, "ca_repository(\"ns\") vs sia_base().join(\"ns/\")");
        agree!(info.resolve("ns", "f.cer"), ns.join(b"f.cer").map_err(|e| e.to_string())?, "resolve(\"ns\", file) vs join");
        agree!(info.resolve("", "f.cer"), self.sia_base().join(b"f.cer").map_err(|e| e.to_string())?, "resolve(\"\", file) vs join");
        xml_variants(&|| self.to_xml_vec(), &|| self.to_xml_string(), &|| self.to_string())?;
        sweep_validate(self.id_cert(), &|| self.validate(), &mut o)?;
        o.push(format!("service_uri={} sia_base={} rrdp={:?} tag={:?}", self.service_uri(), self.sia_base(), self.rrdp_notification_uri().map(|u| u.to_string()), self.tag()));
        Ok(o)
    }
}

//============ Round-trip driver =============================================

#[derive(Default)]
struct Local {
    /// false: a failing case only raises `failed` (parallel phase); true: it is reported
    report: bool,
    failed: bool,
    rejected_seeds: Vec<String>,
    evals: u64,
    docs: Vec<u64>,
    outcomes: BTreeMap<&'static str, u64>,
}

impl Local {
    fn reporting() -> Local { Local { report: true, ..Local::default() } }
    fn bump(&mut self, k: &'static str) { *self.outcomes.entry(k).or_insert(0) += 1 }
    /// Violations are reported in case order, not in thread-arrival order: the
    /// parallel phase only marks the case, `run_cases` re-executes marked cases sequentially.
    fn fail(&mut self, ctx: &Ctx, oracle: String, wit: &dyn Fn() -> String, detail: String) {
        if self.report { ctx.fail(&oracle, wit(), detail) } else { self.failed = true }
    }
}

struct Collector { sp: std::sync::Arc<Space>, docs: Mutex<HashSet<u64>> }

impl Collector {
    fn new(sp: std::sync::Arc<Space>) -> Self { Collector { sp, docs: Mutex::new(HashSet::new()) } }
    fn merge(&self, l: Local) {
        self.sp.evals(l.evals);
        self.sp.merge_outcomes(&l.outcomes);
        let mut d = self.docs.lock().unwrap();
        d.extend(l.docs);
    }
    fn finish(&self, exhaustive: bool, bound: &str) {
        self.sp.nontrivial(self.docs.lock().unwrap().len() as u64);
        self.sp.done(exhaustive, bound);
    }
}

/// One evaluation of oracles (i) and (ii) on a message.
fn roundtrip<M: PartialEq + std::fmt::Debug + Sweep>(
    ctx: &Ctx, area: &str, l: &mut Local, m: &M, wit: &dyn Fn() -> String,
    write: &dyn Fn(&M) -> Vec<u8>, parse: &dyn Fn(&[u8]) -> Result<M, String>,
) {
    roundtrip_g(ctx, area, l, m, wit, write, parse, &|_| Ok(()))
}

/// `given`: the accessors of `m` against the constructor arguments the enumeration used.
#[allow(clippy::too_many_arguments)]
fn roundtrip_g<M: PartialEq + std::fmt::Debug + Sweep>(
    ctx: &Ctx, area: &str, l: &mut Local, m: &M, wit: &dyn Fn() -> String,
    write: &dyn Fn(&M) -> Vec<u8>, parse: &dyn Fn(&[u8]) -> Result<M, String>,
    given: &dyn Fn(&M) -> Result<(), String>,
) {
    l.evals += 1;
    let swept = match guard(|| (m.sweep(), given(m))) {
        Err(p) => { l.fail(ctx, format!("C11.{area}.accessors.nopanic"), wit, p); None }
        Ok((Err(e), _)) => { l.fail(ctx, format!("C11.{area}.accessors.consistent"), wit, e); None }
        Ok((Ok(_), Err(e))) => { l.fail(ctx, format!("C11.{area}.accessors.given"), wit, e); None }
        Ok((Ok(s), Ok(()))) => Some(s),
    };
    let doc = match guard(|| write(m)) {
        Ok(d) => d,
        Err(p) => { l.fail(ctx, format!("C11.{area}.write.nopanic"), wit, p); l.bump("write-panicked"); return }
    };
    l.docs.push(fnv64(&doc));
    match wf_check(&doc) {
        Ok(sp) => {
            l.bump(if sp.refs > 0 { "written-with-references" } else { "written-plain" });
            if let Err(e) = qx_check(&doc) {
                l.fail(ctx, format!("C11.{area}.wellformed"), wit, format!("{e}; document: {}", trunc(&String::from_utf8_lossy(&doc), 400)));
            }
        }
        Err(e) => {
            l.bump("written-malformed");
            l.fail(ctx, format!("C11.{area}.wellformed"), wit, format!("{e}; document: {}", trunc(&String::from_utf8_lossy(&doc), 400)));
        }
    }
    match guard(|| parse(&doc)) {
        Err(p) => l.fail(ctx, format!("C11.{area}.roundtrip.parse"), wit, format!("parser panicked on the library's own output: {p}")),
        Ok(Err(e)) => l.fail(ctx, format!("C11.{area}.roundtrip.parse"), wit,
            format!("parse(write(m)) = Err({e}); document: {}", trunc(&String::from_utf8_lossy(&doc), 400))),
        Ok(Ok(back)) => if &back == m {
            // the parsed twin answers every accessor like the constructed value
            if let Some(mut s) = swept { match guard(|| { SKIP_VALIDATE.set(!ctx.tier.is_thorough()); let r = back.sweep(); SKIP_VALIDATE.set(false); r }) {
                Err(p) => l.fail(ctx, format!("C11.{area}.accessors.nopanic"), wit, format!("on the parsed twin: {p}")),
                Ok(Err(e)) => l.fail(ctx, format!("C11.{area}.accessors.consistent"), wit, format!("on the parsed twin: {e}")),
                Ok(Ok(t)) => { if !ctx.tier.is_thorough() { s.retain(|x| !x.starts_with("validate.")) } if t != s {
                    let i = s.iter().zip(t.iter()).position(|(a, b)| a != b).unwrap_or(s.len().min(t.len()));
                    l.fail(ctx, format!("C11.{area}.accessors.twin"), wit, format!("constructed: {:?}; parsed twin: {:?}", s.get(i).map(|x| trunc(x, 200)), t.get(i).map(|x| trunc(x, 200))));
                }}
            }}
        } else {
            l.fail(ctx, format!("C11.{area}.roundtrip.equal"), wit,
                format!("parse(write(m)) != m; got {}; document: {}", trunc(&format!("{back:?}"), 300), trunc(&String::from_utf8_lossy(&doc), 300)));
        }
    }
}

fn run_cases<T: Sync>(cases: &[T], col: &Collector, f: impl Fn(&T, &mut Local) + Sync) {
    let mut failing: Vec<usize> = cases.par_chunks(64).enumerate().flat_map_iter(|(ci, chunk)| {
        let mut l = Local::default();
        let mut bad = Vec::new();
        for (j, c) in chunk.iter().enumerate() {
            l.failed = false;
            f(c, &mut l);
            if l.failed { bad.push(ci * 64 + j) }
        }
        col.merge(l);
        bad
    }).collect();
    failing.sort();
    let mut l = Local::reporting();
    for i in failing { f(&cases[i], &mut l) }
}

fn pub_write(m: &publ::Message) -> Vec<u8> { m.to_xml_bytes().to_vec() }
fn pub_parse(b: &[u8]) -> Result<publ::Message, String> { publ::Message::decode(b).map_err(|e| e.to_string()) }
fn prov_write(m: &prov::Message) -> Vec<u8> { m.to_xml_bytes().to_vec() }
fn prov_parse(b: &[u8]) -> Result<prov::Message, String> { prov::Message::decode(b).map_err(|e| e.to_string()) }

//--- accessors against the constructor arguments of the enumerations

fn given_delta(fx: &Fx, want: &[El], m: &publ::Message) -> Result<(), String> {
    let got = match m.clone().as_query() { Ok(publ::Query::Delta(d)) => d.into_elements(), _ => return Err("Message::delta(..) is not a delta query".into()) };
    agree!(got.len(), want.len(), "number of elements");
    for (g, e) in got.iter().zip(want) {
        let content = Base64::from_content(&fx.contents[e.content]);
        let tag = match e.kind { 0..=2 => fx.tag(e.tag), 3 | 4 => Some(content.to_hash().to_string()), _ => Some(fx.hashes[e.hash].to_string()) };
        let (t, u, c, h) = match g {
            publ::PublishDeltaElement::Publish(p) if e.kind % 3 == 0 => (p.tag(), p.uri(), Some(p.content()), None),
            publ::PublishDeltaElement::Update(p) if e.kind % 3 == 1 => (p.tag(), p.uri(), Some(p.content()), Some(p.hash())),
            publ::PublishDeltaElement::Withdraw(p) if e.kind % 3 == 2 => (p.tag(), p.uri(), None, Some(p.hash())),
            _ => return Err("element kind differs from the constructor used".into()),
        };
        agree!(t, tag.as_ref(), "tag() vs the tag given");
        agree!(u, &fx.rsyncs[e.uri], "uri() vs the uri given");
        if let Some(c) = c { agree!(c.to_bytes().as_ref(), fx.contents[e.content].as_slice(), "content().to_bytes() vs the content given") }
        if let Some(h) = h { agree!(h, &fx.hashes[e.hash], "hash() vs the hash given") }
    }
    Ok(())
}

fn given_hh(fx: &Fx, m: &prov::Message, s: usize, r: usize) -> Result<(), String> {
    agree!(m.sender().as_str(), fx.handles[s].as_str(), "sender() vs the handle given");
    agree!(m.recipient().as_str(), fx.handles[r].as_str(), "recipient() vs the handle given");
    Ok(())
}

fn given_issued(fx: &Fx, want: Issued, got: &prov::IssuedCert) -> Result<(), String> {
    agree!(got.uri(), &fx.rsyncs[want.uri], "IssuedCert::uri() vs the uri given");
    agree!(got.req_limit(), &fx.limit(want.la, want.lb, want.lc), "IssuedCert::req_limit() vs the limit given");
    agree!(cert_id(got.cert()), cert_id(&fx.certs[want.cert % fx.certs.len()].1), "IssuedCert::cert() vs the certificate given");
    Ok(())
}

fn given_class(fx: &Fx, want: &Class, got: &prov::ResourceClassEntitlements) -> Result<(), String> {
    agree!(got.class_name().as_ref(), fx.texts[want.name + 1].as_str(), "class_name() vs the name given");
    agree!(got.resource_set(), &ResourceSet::new(fx.asn[want.asn].clone(), fx.v4[want.v4].clone(), fx.v6[want.v6].clone()), "resource_set() vs the set given");
    agree!(got.not_after(), fx.times[want.time], "not_after() vs the time given");
    agree!(got.signing_cert().url(), &fx.rsyncs[want.url], "signing_cert().url() vs the url given");
    agree!(cert_id(got.signing_cert().cert()), cert_id(&fx.certs[want.signing % fx.certs.len()].1), "signing_cert().cert() vs the certificate given");
    agree!(got.issued_certs().len(), want.issued.len(), "issued_certs().len()");
    for (g, w) in got.issued_certs().iter().zip(&want.issued) { given_issued(fx, *w, g)? }
    Ok(())
}

fn given_id(fx: &Fx, got: &Base64, i: usize) -> Result<(), String> {
    agree!(got.to_bytes().as_ref(), fx.idcerts[i].1.as_slice(), "id_cert().to_bytes() vs the content given");
    Ok(())
}

//============ RFC 8181 publication messages =================================

#[derive(Clone, Copy, Debug)]
struct El { kind: usize, tag: usize, uri: usize, content: usize, hash: usize }

fn pub_element(fx: &Fx, e: El) -> publ::PublishDeltaElement {
    let uri = fx.rsyncs[e.uri].clone();
    let content = Base64::from_content(&fx.contents[e.content]);
    let hash = fx.hashes[e.hash];
    let mut d = publ::PublishDelta::empty();
    match e.kind {
        0 => d.add_publish(publ::Publish::new(fx.tag(e.tag), uri, content)),
        1 => d.add_update(publ::Update::new(fx.tag(e.tag), uri, content, hash)),
        2 => d.add_withdraw(publ::Withdraw::new(fx.tag(e.tag), uri, hash)),
        // the *_with_hash_tag constructors (tag index ignored)
        3 => d.add_publish(publ::Publish::with_hash_tag(uri, content)),
        4 => d.add_update(publ::Update::with_hash_tag(uri, content, hash)),
        _ => d.add_withdraw(publ::Withdraw::with_hash_tag(uri, hash)),
    }
    d.into_elements().pop().unwrap()
}

fn show_el(fx: &Fx, e: El) -> String {
    let kind = ["publish", "update", "withdraw", "publish.with_hash_tag", "update.with_hash_tag", "withdraw.with_hash_tag"][e.kind];
    let tag = if e.kind < 3 { format!("tag={},", show_opt(&fx.tag(e.tag))) } else { String::new() };
    let content = if e.kind % 3 != 2 { format!(",content={}", show_bytes(&fx.contents[e.content])) } else { String::new() };
    let hash = if e.kind % 3 != 0 { format!(",hash={}", fx.hashes[e.hash]) } else { String::new() };
    format!("{kind}({tag}uri={}{content}{hash})", trunc(fx.rsyncs[e.uri].as_str(), 80))
}

fn delta_of(fx: &Fx, els: &[El]) -> publ::Message {
    let mut d = publ::PublishDelta::empty();
    for e in els {
        match pub_element(fx, *e) {
            publ::PublishDeltaElement::Publish(p) => d.add_publish(p),
            publ::PublishDeltaElement::Update(u) => d.add_update(u),
            publ::PublishDeltaElement::Withdraw(w) => d.add_withdraw(w),
        }
    }
    publ::Message::delta(d)
}

const CODES: [publ::ReportErrorCode; 8] = [
    publ::ReportErrorCode::XmlError, publ::ReportErrorCode::PermissionFailure, publ::ReportErrorCode::BadCmsSignature,
    publ::ReportErrorCode::ObjectAlreadyPresent, publ::ReportErrorCode::NoObjectPresent, publ::ReportErrorCode::NoObjectMatchingHash,
    publ::ReportErrorCode::ConsistencyProblem, publ::ReportErrorCode::OtherError,
];

fn space_publication(ctx: &Ctx, fx: &Fx) {
    let k = ctx.tier.pick(2, 3);
    // --- single-element deltas: star product over the fields
    let sp = ctx.space("pub.delta.single",
        "Message::delta with one element built by Publish/Update/Withdraw::new and ::with_hash_tag; fields kind x tag x uri x content x hash, star product (all fields on the core alphabet, at most k fields on the full one); non-trivial = distinct written documents");
    let col = Collector::new(sp.clone());
    let full = [6, fx.n_tags(), fx.rsyncs.len(), fx.contents.len(), fx.hashes.len()];
    // tag core: None, Some(""), Some("a"), and one with every XML-special character
    let special = 1 + fx.texts.iter().position(|t| t == "<&").unwrap_or(3);
    let plain = 1 + fx.texts.iter().position(|t| t == "a").unwrap_or(1);
    let core_tag = [0usize, 1, plain, special];
    let cores: [&[usize]; 5] = [&[0, 1, 2, 3, 4, 5], &core_tag, &[1, 3], &[0, 3], &[2]];
    let mid = [6, fx.n_tags_mid(), fx.rsyncs.len(), fx.contents.len(), fx.hashes.len()];
    let mut cases = star2(&full, &mid, &cores, k);
    if ctx.tier.is_thorough() {
        // every pair of fields on the full alphabets (texts of <= 3 units) as well
        cases.extend(star(&full, &cores, 2));
        cases.sort(); cases.dedup();
    }
    run_cases(&cases, &col, |c, l| {
        let e = El { kind: c[0], tag: c[1], uri: c[2], content: c[3], hash: c[4] };
        // fields a kind does not use stay on their first core value, so that no message is built twice
        if (e.kind >= 3 && e.tag != 0) || (e.kind % 3 == 0 && e.hash != 2) || (e.kind % 3 == 2 && e.content != 0) { return }
        let m = delta_of(fx, &[e]);
        roundtrip_g(ctx, "pub", l, &m, &|| format!("pub.delta[{}]", show_el(fx, e)), &pub_write, &pub_parse, &|m| given_delta(fx, &[e], m));
    });
    sp.set("alphabet_sizes", serde_json::json!({"kinds": 6, "tags": fx.n_tags(), "uris": fx.rsyncs.len(), "contents": fx.contents.len(), "hashes": fx.hashes.len(), "k": k}));
    sp.sample_str(|| String::from_utf8_lossy(&pub_write(&delta_of(fx, &[El { kind: 1, tag: special, uri: 3, content: 3, hash: 2 }]))).into_owned());
    col.finish(true, ctx.tier.pick("star product, k = 2 on texts of <= 2 units and long values", "star product, k = 3 on texts of <= 2 units and long values, k = 2 on texts of <= 3 units"));

    // --- sequences of up to 3 elements over a small element alphabet
    let sp = ctx.space("pub.delta.sequences",
        "Message::delta with every sequence of 0..=3 elements over an element alphabet (3 kinds x tags {None, Some(\"\"), special} x contents {empty, 3 octets}; withdraw has no content); non-trivial = distinct written documents");
    let col = Collector::new(sp.clone());
    let mut alpha: Vec<El> = Vec::new();
    for kind in 0..3 { for tag in [0, 1, special] { for content in [0usize, 3] {
        if kind == 2 && content != 0 { continue }
        alpha.push(El { kind, tag, uri: 3, content, hash: 2 });
    }}}
    let n = alpha.len() as u64;
    let total = rpki_verif::engine::enumerate::seq_count(n, 3);
    let idxs: Vec<u64> = (0..total).collect();
    run_cases(&idxs, &col, |i, l| {
        let mut s = Vec::new();
        rpki_verif::engine::enumerate::seq_at(n, 3, *i, &mut s);
        let els: Vec<El> = s.iter().map(|j| alpha[*j]).collect();
        let m = delta_of(fx, &els);
        roundtrip_g(ctx, "pub", l, &m, &|| format!("pub.delta[{}]", els.iter().map(|e| show_el(fx, *e)).collect::<Vec<_>>().join(", ")), &pub_write, &pub_parse, &|m| given_delta(fx, &els, m));
    });
    sp.set("element_alphabet", serde_json::json!(alpha.len()));
    col.finish(true, "all sequences of length <= 3");

    // --- list query, success, list replies, error replies
    let sp = ctx.space("pub.other",
        "list_query, success, list_reply with every sequence of 0..=3 elements over (uri core x hashes) plus every uri as a single element (ListReply::new and add_element), error replies with 1..=2 reports of every code (for_error / add_error); non-trivial = distinct written documents");
    let col = Collector::new(sp.clone());
    let mut l = Local::reporting();
    roundtrip(ctx, "pub", &mut l, &publ::Message::list_query(), &|| "pub.list_query".into(), &pub_write, &pub_parse);
    roundtrip(ctx, "pub", &mut l, &publ::Message::success(), &|| "pub.success".into(), &pub_write, &pub_parse);
    let mut lel: Vec<(usize, usize)> = Vec::new();
    for u in [1usize, 3] { for h in 0..fx.hashes.len() { lel.push((u, h)) } }
    let n = lel.len() as u64;
    let mut s = Vec::new();
    for i in 0..rpki_verif::engine::enumerate::seq_count(n, 3) {
        rpki_verif::engine::enumerate::seq_at(n, 3, i, &mut s);
        let els: Vec<publ::ListElement> = s.iter().map(|j| publ::ListElement::new(fx.rsyncs[lel[*j].0].clone(), fx.hashes[lel[*j].1])).collect();
        let m = if i % 2 == 0 { publ::Message::list_reply(publ::ListReply::new(els)) } else {
            let mut r = publ::ListReply::empty(); for e in els { r.add_element(e) } publ::Message::list_reply(r)
        };
        roundtrip_g(ctx, "pub", &mut l, &m, &|| format!("pub.list_reply[{}]", s.iter().map(|j| format!("(uri#{},hash#{})", lel[*j].0, lel[*j].1)).collect::<Vec<_>>().join(",")), &pub_write, &pub_parse, &|m| {
            let got = match m.clone().as_reply() { Ok(publ::Reply::List(l)) => l.into_elements(), _ => return Err("list_reply(..) is not a list reply".into()) };
            agree!(got.len(), s.len(), "elements().len()");
            for (g, j) in got.iter().zip(&s) { agree!(g.uri(), &fx.rsyncs[lel[*j].0], "ListElement::uri() vs the uri given"); agree!(g.hash(), &fx.hashes[lel[*j].1], "ListElement::hash() vs the hash given") }
            Ok(())
        });
    }
    for (u, uri) in fx.rsyncs.iter().enumerate() {
        let m = publ::Message::list_reply(publ::ListReply::new(vec![publ::ListElement::new(uri.clone(), fx.hashes[0])]));
        roundtrip(ctx, "pub", &mut l, &m, &|| format!("pub.list_reply[(uri={},hash#0)]", trunc(fx.rsyncs[u].as_str(), 80)), &pub_write, &pub_parse);
    }
    for a in 0..8 {
        let m = publ::Message::error(publ::ErrorReply::for_error(publ::ReportError::with_code(CODES[a].clone())));
        roundtrip(ctx, "pub", &mut l, &m, &|| format!("pub.error[{}]", CODES[a]), &pub_write, &pub_parse);
        for b in 0..8 {
            let mut r = publ::ErrorReply::empty();
            r.add_error(publ::ReportError::with_code(CODES[a].clone()));
            r.add_error(publ::ReportError::with_code(CODES[b].clone()));
            let m = publ::Message::error(r);
            roundtrip_g(ctx, "pub", &mut l, &m, &|| format!("pub.error[{},{}]", CODES[a], CODES[b]), &pub_write, &pub_parse, &|m| {
                match m.clone().as_reply() { Ok(publ::Reply::ErrorReply(e)) => { agree!(e.errors().len(), 2usize, "errors().len()");
                    agree!(e.errors()[0], publ::ReportError::with_code(CODES[a].clone()), "errors()[0] vs the report given"); agree!(e.errors()[1], publ::ReportError::with_code(CODES[b].clone()), "errors()[1] vs the report given"); Ok(()) }
                    _ => Err("error(..) is not an error reply".into()) }
            });
        }
    }
    col.merge(l);
    sp.sample_str(|| String::from_utf8_lossy(&pub_write(&publ::Message::error(publ::ErrorReply::for_error(publ::ReportError::with_code(CODES[3].clone()))))).into_owned());
    col.finish(true, "list replies up to 3 elements, error replies up to 2 reports");
}

//============ RFC 6492 provisioning messages ================================

#[derive(Clone, Copy, Debug)]
struct Issued { uri: usize, la: usize, lb: usize, lc: usize, cert: usize }

#[derive(Clone, Debug)]
struct Class { name: usize, url: usize, asn: usize, v4: usize, v6: usize, time: usize, signing: usize, issued: Vec<Issued> }

fn issued_of(fx: &Fx, i: Issued) -> prov::IssuedCert {
    prov::IssuedCert::new(fx.rsyncs[i.uri].clone(), fx.limit(i.la, i.lb, i.lc), fx.certs[i.cert % fx.certs.len()].1.clone())
}

fn class_of(fx: &Fx, c: &Class) -> prov::ResourceClassEntitlements {
    prov::ResourceClassEntitlements::new(
        fx.class(c.name), ResourceSet::new(fx.asn[c.asn].clone(), fx.v4[c.v4].clone(), fx.v6[c.v6].clone()), fx.times[c.time],
        c.issued.iter().map(|i| issued_of(fx, *i)).collect(),
        prov::SigningCert::new(fx.rsyncs[c.url].clone(), fx.certs[c.signing % fx.certs.len()].1.clone()))
}

fn show_limit(fx: &Fx, a: usize, b: usize, c: usize) -> String {
    let f = |i: usize, s: String| if i == 0 { "None".to_string() } else { format!("Some({s:?})") };
    format!("limit(as={},v4={},v6={})",
        f(a, if a > 0 { fx.asn[a - 1].to_string() } else { String::new() }),
        f(b, if b > 0 { fx.v4[b - 1].to_string() } else { String::new() }),
        f(c, if c > 0 { fx.v6[c - 1].to_string() } else { String::new() }))
}

fn show_issued(fx: &Fx, i: Issued) -> String {
    format!("certificate(uri={},{},cert={})", trunc(fx.rsyncs[i.uri].as_str(), 80), show_limit(fx, i.la, i.lb, i.lc), fx.certs[i.cert % fx.certs.len()].0)
}

fn show_class(fx: &Fx, c: &Class) -> String {
    format!("class(name={},cert_url={},as={:?},v4={:?},v6={:?},notafter={},issuer={},[{}])",
        show(&trunc(&fx.texts[c.name + 1], 80)), trunc(fx.rsyncs[c.url].as_str(), 80), fx.asn[c.asn].to_string(), fx.v4[c.v4].to_string(), fx.v6[c.v6].to_string(),
        fx.times[c.time].to_rfc3339(), fx.certs[c.signing % fx.certs.len()].0,
        c.issued.iter().map(|i| show_issued(fx, *i)).collect::<Vec<_>>().join(","))
}

fn show_hh(fx: &Fx, s: usize, r: usize) -> String { format!("sender={},recipient={}", trunc(&fx.handles[s], 40), trunc(&fx.handles[r], 40)) }

fn space_provisioning(ctx: &Ctx, fx: &Fx) {
    let k = ctx.tier.pick(1, 2);
    let nh = fx.handles.len();
    let special = fx.texts.iter().position(|t| t == "<&").map(|p| p - 1).unwrap_or(2);
    let plain = fx.texts.iter().position(|t| t == "a").map(|p| p - 1).unwrap_or(0);
    let core_class = [plain, special];
    let (nhm, ncm) = (fx.handles_mid, fx.n_classes_mid());
    let core_h = [0usize, fx.h_a255];     // "-" and 255 x "a"
    let long_h = [fx.h_slash255];         // 255 x "/"

    // --- list, revoke, revoke_response, error_response
    let sp = ctx.space("prov.simple",
        "Message::list over sender x recipient handles; revoke and revoke_response (via From<&RevocationRequest>) over handles x class name x key; not_performed_response for all 11 codes; star product; non-trivial = distinct written documents");
    let col = Collector::new(sp.clone());
    let cases = star2(&[nh, nh], &[nhm, nhm], &[&core_h, &core_h], 2);
    run_cases(&cases, &col, |c, l| {
        let m = prov::Message::list(fx.handle(c[0]), fx.handle(c[1]));
        roundtrip_g(ctx, "prov", l, &m, &|| format!("prov.list({})", show_hh(fx, c[0], c[1])), &prov_write, &prov_parse, &|m| given_hh(fx, m, c[0], c[1]));
    });
    let cases = star2(&[2, nh, nh, fx.n_classes(), fx.keys.len()], &[2, nhm, nhm, ncm, fx.keys.len()], &[&[0, 1], &core_h, &long_h, &core_class, &[2, 3]], 2);
    run_cases(&cases, &col, |c, l| {
        let req = prov::RevocationRequest::new(fx.class(c[3]), fx.keys[c[4]]);
        let m = if c[0] == 0 { prov::Message::revoke(fx.handle(c[1]), fx.handle(c[2]), req) }
            else { prov::Message::revoke_response(fx.handle(c[1]), fx.handle(c[2]), prov::RevocationResponse::from(&req)) };
        roundtrip_g(ctx, "prov", l, &m, &|| format!("prov.{}({},class={},key={})", ["revoke", "revoke_response"][c[0]], show_hh(fx, c[1], c[2]),
            show(&trunc(&fx.texts[c[3] + 1], 80)), fx.keys[c[4]]), &prov_write, &prov_parse, &|m| {
                given_hh(fx, m, c[1], c[2])?;
                let el: &prov::KeyElement = match m.payload() { prov::Payload::Revoke(r) if c[0] == 0 => r, prov::Payload::RevokeResponse(r) if c[0] == 1 => r,
                    _ => return Err("payload kind differs from the constructor used".into()) };
                agree!(el.class_name().as_ref(), fx.texts[c[3] + 1].as_str(), "class_name() vs the name given");
                agree!(el.key(), &fx.keys[c[4]], "key() vs the key given");
                Ok(())
            });
    });
    let errs: [(u64, fn() -> prov::NotPerformedResponse); 11] = [
        (1101, prov::NotPerformedResponse::err_1101), (1102, prov::NotPerformedResponse::err_1102), (1103, prov::NotPerformedResponse::err_1103),
        (1104, prov::NotPerformedResponse::err_1104), (1201, prov::NotPerformedResponse::err_1201), (1202, prov::NotPerformedResponse::err_1202),
        (1203, prov::NotPerformedResponse::err_1203), (1204, prov::NotPerformedResponse::err_1204), (1301, prov::NotPerformedResponse::err_1301),
        (1302, prov::NotPerformedResponse::err_1302), (2001, prov::NotPerformedResponse::err_2001)];
    let mut l = Local::reporting();
    for (code, f) in errs { for h in [0usize, fx.h_slash255] {
        let m = prov::Message::not_performed_response(fx.handle(h), fx.handle(0), f()).expect("constructor");
        if m.payload().payload_type().as_ref() != "error_response" { ctx.machinery_error("unexpected payload type") }
        roundtrip_g(ctx, "prov", &mut l, &m, &|| format!("prov.error_response({},code={code})", show_hh(fx, h, 0)), &prov_write, &prov_parse, &|m| {
            given_hh(fx, m, h, 0)?;
            match m.payload() { prov::Payload::ErrorResponse(e) => {
                agree!(e.status(), code, "status() vs the err_NNNN constructor used");
                agree!(e, &f(), "payload() vs the response given");
                if e.description().is_none_or(|d| d.is_empty()) { return Err("err_NNNN() without a description".into()) }
                Ok(()) }
                _ => Err("payload kind differs from the constructor used".into()) }
        });
    }}
    col.merge(l);
    sp.sample_str(|| String::from_utf8_lossy(&prov_write(&prov::Message::revoke(fx.handle(0), fx.handle(1), prov::RevocationRequest::new(fx.class(special), fx.keys[3])))).into_owned());
    sp.set("alphabet_sizes", serde_json::json!({"handles": nh, "class_names": fx.n_classes(), "keys": fx.keys.len(), "k": 2}));
    col.finish(true, "star product, k = 2; all 11 codes");

    // --- issue
    let sp = ctx.space("prov.issue",
        "Message::issue: class name x limit (None or every AS / IPv4 / IPv6 atom) x CSR x handles; the full product of the three limit fields on core handles / class / CSR, plus the star product over all fields; non-trivial = distinct written documents");
    let col = Collector::new(sp.clone());
    let (na, nb, nc) = (fx.asn.len() + 1, fx.v4.len() + 1, fx.v6.len() + 1);
    let all_a: Vec<usize> = (0..na).collect(); let all_b: Vec<usize> = (0..nb).collect(); let all_c: Vec<usize> = (0..nc).collect();
    let all_csr: Vec<usize> = (0..fx.csrs.len()).collect();
    // full limit product on core handles / class / CSR, then the star over everything with a 2-point limit core
    let mut cases = star(&[nh, fx.n_classes(), na, nb, nc, fx.csrs.len()], &[&core_h, &core_class[1..], &all_a, &all_b, &all_c, &all_csr[..1]], 0);
    cases.extend(star2(&[nh, fx.n_classes(), na, nb, nc, fx.csrs.len()], &[nhm, ncm, na, nb, nc, fx.csrs.len()], &[&core_h, &core_class, &[0, 6], &[0, 8], &[0, 7], &all_csr[..1]], k));
    cases.sort(); cases.dedup();
    run_cases(&cases, &col, |c, l| {
        let m = prov::Message::issue(fx.handle(c[0]), fx.handle(0), prov::IssuanceRequest::new(fx.class(c[1]), fx.limit(c[2], c[3], c[4]), fx.csrs[c[5]].1.clone()));
        roundtrip_g(ctx, "prov", l, &m, &|| format!("prov.issue({},class={},{},csr={})", show_hh(fx, c[0], 0), show(&trunc(&fx.texts[c[1] + 1], 80)),
            show_limit(fx, c[2], c[3], c[4]), fx.csrs[c[5]].0), &prov_write, &prov_parse, &|m| {
                given_hh(fx, m, c[0], 0)?;
                match m.payload() { prov::Payload::Issue(r) => {
                    agree!(r.class_name().as_ref(), fx.texts[c[1] + 1].as_str(), "class_name() vs the name given");
                    agree!(r.limit(), &fx.limit(c[2], c[3], c[4]), "limit() vs the limit given");
                    agree!(r.csr().to_captured().as_slice(), fx.csrs[c[5]].1.to_captured().as_slice(), "csr() vs the CSR given");
                    Ok(()) }
                    _ => Err("payload kind differs from the constructor used".into()) }
            });
    });
    sp.set("limit_product", serde_json::json!(na * nb * nc));
    sp.sample_str(|| String::from_utf8_lossy(&prov_write(&prov::Message::issue(fx.handle(0), fx.handle(0), prov::IssuanceRequest::new(fx.class(special), fx.limit(6, 8, 8), fx.csrs[0].1.clone())))).into_owned());
    col.finish(true, &format!("full limit product + star product, k = {k}"));

    // --- issue_response: one class with one certificate, star over all fields
    let sp = ctx.space("prov.issue_response",
        "Message::issue_response: class name x cert_url x AS x IPv4 x IPv6 x not-after x issued(uri, limit, certificate) x signing certificate; star product, plus the full product of the three resource atoms; non-trivial = distinct written documents");
    let col = Collector::new(sp.clone());
    let nr = fx.rsyncs.len();
    let full = [fx.n_classes(), nr, fx.asn.len(), fx.v4.len(), fx.v6.len(), fx.times.len(), nr, na, nb, nc, fx.certs.len(), fx.certs.len()];
    let cores: [&[usize]; 12] = [&core_class, &[1], &[5], &[7], &[7], &[0], &[1], &[0], &[3], &[0], &[1], &[0]];
    let mut mid = full; mid[0] = ncm;
    let mut cases = star2(&full, &mid, &cores, k);
    for a in 0..fx.asn.len() { for b in 0..fx.v4.len() { for c in 0..fx.v6.len() {
        cases.push(vec![special, 3, a, b, c, 0, 4, 0, 3, 0, 1, 0]);
        cases.push(vec![plain, 1, a, b, c, 0, 1, a + 1, b + 1, c + 1, 2, 1]);
    }}}
    run_cases(&cases, &col, |c, l| {
        let cl = Class { name: c[0], url: c[1], asn: c[2], v4: c[3], v6: c[4], time: c[5], signing: c[11],
            issued: vec![Issued { uri: c[6], la: c[7], lb: c[8], lc: c[9], cert: c[10] }] };
        let e = class_of(fx, &cl);
        let m = prov::Message::issue_response(fx.handle(0), fx.handle(1), prov::IssuanceResponse::new(
            e.class_name().clone(), e.resource_set().clone(), e.not_after(), e.issued_certs()[0].clone(), e.signing_cert().clone()));
        roundtrip_g(ctx, "prov", l, &m, &|| format!("prov.issue_response({},{})", show_hh(fx, 0, 1), show_class(fx, &cl)), &prov_write, &prov_parse, &|m| {
            given_hh(fx, m, 0, 1)?;
            given_class(fx, &cl, &e)?;
            match m.payload() { prov::Payload::IssueResponse(r) => given_issued(fx, cl.issued[0], &r.clone().into_issued()),
                _ => Err("payload kind differs from the constructor used".into()) }
        });
    });
    sp.set("resource_product", serde_json::json!(fx.asn.len() * fx.v4.len() * fx.v6.len()));
    col.finish(true, &format!("star product, k = {k}, plus all resource-set triples"));

    // --- list_response: 0..=2 classes x 0..=2 certificates
    let sp = ctx.space("prov.list_response",
        "Message::list_response with every sequence of 0..=2 classes, each class one of 4 templates x every sequence of 0..=2 issued certificates over 3 certificate templates; non-trivial = distinct written documents");
    let col = Collector::new(sp.clone());
    let its = [Issued { uri: 3, la: 0, lb: 0, lc: 0, cert: 1 }, Issued { uri: 4, la: 6, lb: 8, lc: 8, cert: 2 }, Issued { uri: 1, la: 1, lb: 1, lc: 1, cert: 3 }];
    let mut iseqs: Vec<Vec<Issued>> = vec![vec![]];
    for a in its { iseqs.push(vec![a]); for b in its { iseqs.push(vec![a, b]) } }
    let mut calpha: Vec<Class> = Vec::new();
    for (name, url, asn, v4, v6, time, signing) in [(0usize, 1usize, 0usize, 0usize, 0usize, 1usize, 0usize), (special, 3, 5, 7, 7, 0, 1), (1, 4, 4, 1, 1, 2, 0), (special, 3, 6, 9, 8, 3, 2)] {
        for is in &iseqs { calpha.push(Class { name, url, asn, v4, v6, time, signing, issued: is.clone() }) }
    }
    let n = calpha.len() as u64;
    let idxs: Vec<u64> = (0..rpki_verif::engine::enumerate::seq_count(n, 2)).collect();
    run_cases(&idxs, &col, |i, l| {
        let mut s = Vec::new();
        rpki_verif::engine::enumerate::seq_at(n, 2, *i, &mut s);
        let m = prov::Message::list_response(fx.handle(0), fx.handle(1),
            prov::ResourceClassListResponse::new(s.iter().map(|j| class_of(fx, &calpha[*j])).collect()));
        roundtrip_g(ctx, "prov", l, &m, &|| format!("prov.list_response({},[{}])", show_hh(fx, 0, 1), s.iter().map(|j| show_class(fx, &calpha[*j])).collect::<Vec<_>>().join(";")), &prov_write, &prov_parse, &|m| {
            given_hh(fx, m, 0, 1)?;
            agree!(m.is_list_response(), true, "is_list_response() of a list response");
            match m.payload() { prov::Payload::ListResponse(r) => {
                agree!(r.classes().len(), s.len(), "classes().len()");
                for (g, j) in r.classes().iter().zip(&s) { given_class(fx, &calpha[*j], g)? }
                Ok(()) }
                _ => Err("payload kind differs from the constructor used".into()) }
        });
    });
    sp.set("class_alphabet", serde_json::json!(calpha.len()));
    col.finish(true, "all sequences of <= 2 classes x <= 2 certificates");
}

//============ Resource sets through every construction route ================
//
// The resource sets a provisioning message carries (entitlements, request
// limits) are values the caller builds before the message exists, and the
// library offers many ways to build them. The message spaces above take
// their sets from FromStr of canonical text only. Here every set is built
// through every public route -- text in any order and spelling, FromIterator
// over blocks in either block form, the builders with push / extend in every
// split, the *ResourcesBuilder wrappers, union / intersection / difference
// results, all() / empty(), serde, the RFC 3779 extension decoders -- over a
// number line that includes both ends of the number space.
//
// Model: the line of each family (AS numbers, IPv4, IPv6) is cut into 8
// atoms: the points 0, 1, M, M+1, TOP-1, TOP and the two stretches between
// them; a set is a bit mask over the atoms, union / intersection / difference
// are |, &, &!. The *expected* library value of a mask is built through the
// plainest route there is: FromStr of the sorted, disjoint, non-touching
// ranges of the mask (and its blocks are compared with the model's).
//
// Oracles: the value a route yields equals the expected value (the first
// place where "a message built from protocol-valid values" goes wrong if a
// route mis-builds the set), and a message carrying the value a route yielded
// is written, parsed back, and compared with itself *and* with the message
// built from the expected value -- a wrong set that happens to round-trip
// faithfully is not what the caller asked to send.

const RR_CELL_ATOM: [u32; 6] = [0, 1, 3, 4, 6, 7];

#[derive(Clone, Copy, PartialEq, Eq)]
enum RrForm { Canonical, Range }

fn rr_cells(mid: u128, top: u128) -> [u128; 6] { [0, 1, mid, mid + 1, top - 1, top] }

fn rr_atom(mid: u128, top: u128, a: u32) -> (u128, u128) {
    match a { 0 => (0, 0), 1 => (1, 1), 2 => (2, mid - 1), 3 => (mid, mid), 4 => (mid + 1, mid + 1), 5 => (mid + 2, top - 2), 6 => (top - 1, top - 1), _ => (top, top) }
}

/// the 21 blocks [cell i ..= cell j]
fn rr_blocks() -> Vec<(usize, usize)> { let mut v = Vec::new(); for i in 0..6 { for j in i..6 { v.push((i, j)) } } v }

fn rr_block_mask(i: usize, j: usize) -> u8 { let mut m = 0u8; for a in RR_CELL_ATOM[i]..=RR_CELL_ATOM[j] { m |= 1 << a } m }

/// maximal runs of atoms, as number intervals: sorted, disjoint, not touching
fn rr_intervals(mid: u128, top: u128, mask: u8) -> Vec<(u128, u128)> {
    let mut out: Vec<(u128, u128)> = Vec::new();
    let mut open = false;
    for a in 0..8u32 {
        if mask & (1 << a) != 0 {
            let (lo, hi) = rr_atom(mid, top, a);
            if open { out.last_mut().unwrap().1 = hi } else { out.push((lo, hi)); open = true }
        } else { open = false }
    }
    out
}

#[derive(Clone, Debug, PartialEq)]
enum RrVal { As(AsBlocks), V4(Ipv4Blocks), V6(Ipv6Blocks) }

type RrEmit<'a, S> = &'a mut dyn FnMut(usize, usize, Result<S, String>);

trait RrFam: Sync + Send + 'static {
    type Set: Clone + PartialEq + std::fmt::Debug + std::fmt::Display + Send + Sync;
    const NAME: &'static str;
    const MID: u128;
    const TOP: u128;
    const LIST_ROUTES: &'static [&'static str];
    /// one block as text; compact: a single number / a prefix where there is one
    fn text(lo: u128, hi: u128, compact: bool) -> String;
    /// the plainest route: FromStr of sorted, disjoint, non-touching ranges
    fn plain(iv: &[(u128, u128)]) -> (String, Result<Self::Set, String>);
    /// the blocks of a set as model intervals
    fn bounds(s: &Self::Set) -> Vec<(u128, u128)>;
    /// every route from a block list (in the given order) to a set: emit(route, k, result)
    fn list_routes(l: &[(u128, u128)], emit: RrEmit<Self::Set>);
    /// routes without arguments: (name, mask, value)
    fn nullary() -> Vec<(&'static str, u8, Self::Set)>;
    /// the five operations of RR_OPS on two sets
    fn ops(a: &Self::Set, b: &Self::Set, emit: &mut dyn FnMut(usize, Self::Set));
    fn of_set(s: &ResourceSet) -> Self::Set;
    fn val(s: &Self::Set) -> RrVal;
}

const RR_OPS: [&str; 7] = ["a.union(b)", "a.intersection(b)", "a.intersection_assign(b)", "a.difference(b)", "b.verify_issued(blocks(a), Overclaim::Trim)",
    "ResourceSet::union", "ResourceSet::intersection"];
fn rr_op_model(op: usize, a: u8, b: u8) -> u8 { match op { 0 | 5 => a | b, 3 => a & !b, _ => a & b } }

fn rr_join<F: RrFam>(l: &[(u128, u128)], compact: bool) -> String { l.iter().map(|&(a, b)| F::text(a, b, compact)).collect::<Vec<_>>().join(", ") }
fn rr_err<E: std::fmt::Display>(e: E) -> String { e.to_string() }

//--- AS numbers

struct RrAs;

fn rr_as_block(lo: u128, hi: u128, f: RrForm) -> AsBlock {
    if lo == hi && f == RrForm::Canonical { AsBlock::from(Asn::from(lo as u32)) } else { AsBlock::from((Asn::from(lo as u32), Asn::from(hi as u32))) }
}

impl RrFam for RrAs {
    type Set = AsBlocks;
    const NAME: &'static str = "as";
    const MID: u128 = 65536;
    const TOP: u128 = u32::MAX as u128;
    const LIST_ROUTES: &'static [&'static str] = &[
        "AsBlocks::from_str(ranges)", "AsBlocks::from_str(single numbers where possible)", "AsBlocks::from_iter(Id / Range blocks)", "AsBlocks::from_iter(Range blocks only)",
        "AsBlocksBuilder: push every block", "AsBlocksBuilder: extend(all blocks)", "AsBlocksBuilder: extend(all blocks, Range form)", "AsBlocksBuilder: push the first k, extend(the rest)",
        "AsBlocksBuilder: extend(the first k), push the rest", "AsBlocksBuilder: extend one block at a time", "AsResourcesBuilder::blocks(extend).finalize().to_blocks()",
        "union of one-block sets, folded in list order", "serde: AsBlocks from a JSON string", "ResourceSet::from_strs", "serde: ResourceSet from a JSON object",
        "serde: RequestResourceLimit from a JSON object", "DER: AsResources::take_from(ASIdentifiers).to_blocks()"];
    fn text(lo: u128, hi: u128, compact: bool) -> String { if compact && lo == hi { format!("AS{lo}") } else { format!("AS{lo}-AS{hi}") } }
    fn plain(iv: &[(u128, u128)]) -> (String, Result<AsBlocks, String>) { let t = rr_join::<Self>(iv, true); let r = AsBlocks::from_str(&t).map_err(rr_err); (t, r) }
    fn bounds(s: &AsBlocks) -> Vec<(u128, u128)> { s.iter().map(|b| (b.min().into_u32() as u128, b.max().into_u32() as u128)).collect() }
    fn list_routes(l: &[(u128, u128)], emit: RrEmit<AsBlocks>) {
        let n = l.len();
        let canon: Vec<AsBlock> = l.iter().map(|&(a, b)| rr_as_block(a, b, RrForm::Canonical)).collect();
        let ranges: Vec<AsBlock> = l.iter().map(|&(a, b)| rr_as_block(a, b, RrForm::Range)).collect();
        let (t0, t1) = (rr_join::<Self>(l, false), rr_join::<Self>(l, true));
        emit(0, 0, AsBlocks::from_str(&t0).map_err(rr_err));
        emit(1, 0, AsBlocks::from_str(&t1).map_err(rr_err));
        emit(2, 0, Ok(canon.iter().copied().collect()));
        emit(3, 0, Ok(ranges.iter().copied().collect()));
        let mut b = AsBlocksBuilder::new(); for x in &canon { b.push(*x) } emit(4, 0, Ok(b.finalize()));
        let mut b = AsBlocksBuilder::new(); b.extend(canon.iter().copied()); emit(5, 0, Ok(b.finalize()));
        let mut b = AsBlocksBuilder::default(); b.extend(ranges.iter().copied()); emit(6, 0, Ok(b.finalize()));
        for k in 1..n {
            let mut b = AsBlocksBuilder::new(); for x in &canon[..k] { b.push(*x) } b.extend(canon[k..].iter().copied()); emit(7, k, Ok(b.finalize()));
            let mut b = AsBlocksBuilder::new(); b.extend(canon[..k].iter().copied()); for x in &canon[k..] { b.push(*x) } emit(8, k, Ok(b.finalize()));
        }
        if n >= 2 { let mut b = AsBlocksBuilder::new(); for x in &canon { b.extend([*x]) } emit(9, 0, Ok(b.finalize())) }
        let mut rb = AsResourcesBuilder::new(); rb.blocks(|b| b.extend(canon.iter().copied())); emit(10, 0, rb.finalize().to_blocks().map_err(rr_err));
        let mut u = AsBlocks::empty(); for x in &canon { u = u.union(&AsBlocks::from_iter([*x])) } emit(11, 0, Ok(u));
        emit(12, 0, serde_json::from_value::<AsBlocks>(serde_json::json!(t0)).map_err(rr_err));
        emit(13, 0, ResourceSet::from_strs(&t0, "", "").map(|s| s.asn().clone()).map_err(rr_err));
        emit(14, 0, serde_json::from_value::<ResourceSet>(serde_json::json!({"asn": t1, "ipv4": "", "ipv6": ""})).map(|s| s.asn().clone()).map_err(rr_err));
        emit(15, 0, serde_json::from_value::<prov::RequestResourceLimit>(serde_json::json!({"asn": t0})).map_err(rr_err).and_then(|l| l.asn().cloned().ok_or("asn() is None".to_string())));
        if n >= 1 {
            let items: Vec<der::AsItem> = l.iter().map(|&(a, b)| if a == b { der::AsItem::Id(a) } else { der::AsItem::Range(a, b) }).collect();
            emit(16, 0, Mode::Der.decode(der::as_identifiers(Some(&items)).as_slice(), AsResources::take_from).map_err(rr_err).and_then(|r| r.to_blocks().map_err(rr_err)));
        }
    }
    fn nullary() -> Vec<(&'static str, u8, AsBlocks)> {
        vec![("AsBlocks::all()", 0xff, AsBlocks::all()), ("AsBlocks::empty()", 0, AsBlocks::empty()), ("AsBlocks::default()", 0, AsBlocks::default()),
            ("ResourceSet::all().asn()", 0xff, ResourceSet::all().asn().clone()), ("ResourceSet::empty().asn()", 0, ResourceSet::empty().asn().clone()),
            ("AsBlocks::from_iter([AsBlock::all()])", 0xff, AsBlocks::from_iter([AsBlock::all()])),
            ("AsBlocks::from_resources(AsResources::missing())", 0, AsBlocks::from_resources(AsResources::missing()).expect("missing resources are no blocks"))]
    }
    fn ops(a: &AsBlocks, b: &AsBlocks, emit: &mut dyn FnMut(usize, AsBlocks)) {
        emit(0, a.union(b));
        emit(1, a.intersection(b));
        let mut x = a.clone(); x.intersection_assign(b); emit(2, x);
        emit(3, a.difference(b));
        if let Ok(t) = b.verify_issued(&AsResources::blocks(a.clone()), Overclaim::Trim) { emit(4, t) }
    }
    fn of_set(s: &ResourceSet) -> AsBlocks { s.asn().clone() }
    fn val(s: &AsBlocks) -> RrVal { RrVal::As(s.clone()) }
}

//--- IP addresses

/// model numbers of the IPv4 line are 32-bit; the library keeps them in the upper 32 bits of its 128-bit address
fn rr_ip_bits(v4: bool, x: u128, upper_end: bool) -> u128 { if v4 { (x << 96) | if upper_end { (1u128 << 96) - 1 } else { 0 } } else { x } }
fn rr_ip_num(v4: bool, x: u128) -> String { if v4 { Ipv4Addr::from(x as u32).to_string() } else { Ipv6Addr::from(x).to_string() } }
/// Some(prefix length) if [lo, hi] is exactly one prefix of a `width`-bit family
fn rr_prefix_len(lo: u128, hi: u128, width: u32) -> Option<u32> {
    let x = lo ^ hi;
    if x & x.wrapping_add(1) == 0 && lo & x == 0 && hi & x == x { Some(width - x.count_ones()) } else { None }
}
fn rr_ip_text(v4: bool, lo: u128, hi: u128, compact: bool) -> String {
    if compact && lo == hi { return rr_ip_num(v4, lo) }
    if compact { if let Some(len) = rr_prefix_len(lo, hi, if v4 { 32 } else { 128 }) { return format!("{}/{len}", rr_ip_num(v4, lo)) } }
    format!("{}-{}", rr_ip_num(v4, lo), rr_ip_num(v4, hi))
}
fn rr_ip_block(v4: bool, lo: u128, hi: u128, f: RrForm) -> IpBlock {
    let (min, max) = (Addr::from_bits(rr_ip_bits(v4, lo, false)), Addr::from_bits(rr_ip_bits(v4, hi, true)));
    match f { RrForm::Canonical => IpBlock::from((min, max)), RrForm::Range => IpBlock::Range(AddressRange::new(min, max)) }
}

macro_rules! rr_ip_family {
    ($fam:ident, $set:ident, $block:ident, $v4:expr, $name:expr, $alias:expr, $mid:expr, $top:expr, $afi:expr, $width:expr, $getter:ident, $all:expr) => {
        struct $fam;
        impl RrFam for $fam {
            type Set = $set;
            const NAME: &'static str = $name;
            const MID: u128 = $mid;
            const TOP: u128 = $top;
            const LIST_ROUTES: &'static [&'static str] = &[
                concat!(stringify!($set), "::from_str(ranges)"), concat!(stringify!($set), "::from_str(single addresses and prefixes where possible)"),
                concat!("IpBlocks::from_str(ranges) into ", stringify!($set)), "IpBlocks::from_iter(Prefix / Range blocks)", "IpBlocks::from_iter(Range blocks only)",
                concat!(stringify!($set), "::from_iter(", stringify!($block), "::from_str of every block)"),
                "IpBlocksBuilder: push every block", "IpBlocksBuilder: extend(all blocks)", "IpBlocksBuilder: extend(all blocks, Range form)", "IpBlocksBuilder: push the first k, extend(the rest)",
                "IpBlocksBuilder: extend(the first k), push the rest", "IpBlocksBuilder: extend one block at a time", "IpResourcesBuilder::blocks(extend).finalize().to_blocks()",
                "union of one-block sets, folded in list order", concat!("serde: ", stringify!($set), " from a JSON string"), "ResourceSet::from_strs",
                "serde: ResourceSet from a JSON object (alias member name)", "serde: RequestResourceLimit from a JSON object (alias member name)",
                "DER: IpResources::take_families_from(IPAddrBlocks).to_blocks()"];
            fn text(lo: u128, hi: u128, compact: bool) -> String { rr_ip_text($v4, lo, hi, compact) }
            fn plain(iv: &[(u128, u128)]) -> (String, Result<$set, String>) { let t = rr_join::<Self>(iv, false); let r = $set::from_str(&t).map_err(rr_err); (t, r) }
            fn bounds(s: &$set) -> Vec<(u128, u128)> { s.iter().map(|b| (b.min().to_bits(), b.max().to_bits())).collect() }
            fn list_routes(l: &[(u128, u128)], emit: RrEmit<$set>) {
                let n = l.len();
                let canon: Vec<IpBlock> = l.iter().map(|&(a, b)| rr_ip_block($v4, a, b, RrForm::Canonical)).collect();
                let ranges: Vec<IpBlock> = l.iter().map(|&(a, b)| rr_ip_block($v4, a, b, RrForm::Range)).collect();
                let (t0, t1) = (rr_join::<Self>(l, false), rr_join::<Self>(l, true));
                emit(0, 0, $set::from_str(&t0).map_err(rr_err));
                emit(1, 0, $set::from_str(&t1).map_err(rr_err));
                // the untyped parser tells the family by the first '.' / ':' -- an empty list has neither, any family will do
                emit(2, 0, IpBlocks::from_str(&t0).map($set::from).map_err(rr_err));
                emit(3, 0, Ok(canon.iter().copied().collect::<IpBlocks>().into()));
                emit(4, 0, Ok(ranges.iter().copied().collect::<IpBlocks>().into()));
                emit(5, 0, l.iter().map(|&(a, b)| $block::from_str(&Self::text(a, b, false))).collect::<Result<Vec<_>, _>>().map(|v| v.into_iter().collect::<$set>()).map_err(rr_err));
                let mut b = IpBlocksBuilder::new(); for x in &canon { b.push(*x) } emit(6, 0, Ok(b.finalize().into()));
                let mut b = IpBlocksBuilder::new(); b.extend(canon.iter().copied()); emit(7, 0, Ok(b.finalize().into()));
                let mut b = IpBlocksBuilder::default(); b.extend(ranges.iter().copied()); emit(8, 0, Ok(b.finalize().into()));
                for k in 1..n {
                    let mut b = IpBlocksBuilder::new(); for x in &canon[..k] { b.push(*x) } b.extend(canon[k..].iter().copied()); emit(9, k, Ok(b.finalize().into()));
                    let mut b = IpBlocksBuilder::new(); b.extend(canon[..k].iter().copied()); for x in &canon[k..] { b.push(*x) } emit(10, k, Ok(b.finalize().into()));
                }
                if n >= 2 { let mut b = IpBlocksBuilder::new(); for x in &canon { b.extend([*x]) } emit(11, 0, Ok(b.finalize().into())) }
                let mut rb = IpResourcesBuilder::new(); rb.blocks(|b| b.extend(canon.iter().copied())); emit(12, 0, rb.finalize().to_blocks().map($set::from).map_err(rr_err));
                let mut u = IpBlocks::empty(); for x in &canon { u = u.union(&IpBlocks::from_iter([*x])) } emit(13, 0, Ok(u.into()));
                emit(14, 0, serde_json::from_value::<$set>(serde_json::json!(t0)).map_err(rr_err));
                let none = String::new();
                let (s4, s6) = if $v4 { (&t0, &none) } else { (&none, &t0) };
                emit(15, 0, ResourceSet::from_strs("", s4, s6).map(|s| s.$getter().clone()).map_err(rr_err));
                let mut obj = serde_json::Map::new();
                obj.insert("asn".into(), serde_json::json!(""));
                obj.insert(if $v4 { "ipv6" } else { "ipv4" }.into(), serde_json::json!(""));
                obj.insert($alias.into(), serde_json::json!(t1));
                emit(16, 0, serde_json::from_value::<ResourceSet>(serde_json::Value::Object(obj)).map(|s| s.$getter().clone()).map_err(rr_err));
                let mut obj = serde_json::Map::new();
                obj.insert($alias.into(), serde_json::json!(t0));
                emit(17, 0, serde_json::from_value::<prov::RequestResourceLimit>(serde_json::Value::Object(obj)).map_err(rr_err)
                    .and_then(|l| l.$getter().cloned().ok_or("the limit is None".to_string())));
                if n >= 1 {
                    let items: Vec<der::IpItem> = l.iter().map(|&(a, b)| match rr_prefix_len(a, b, $width) { Some(len) => der::IpItem::Prefix(a, len as u8), None => der::IpItem::Range(a, b) }).collect();
                    emit(18, 0, Mode::Der.decode(der::ip_addr_blocks($afi, $width as u8, Some(&items)).as_slice(), IpResources::take_families_from).map_err(rr_err).and_then(|(v4, v6)| {
                        let (mine, other) = if $v4 { (v4, v6) } else { (v6, v4) };
                        if other.is_some() { return Err("the decoder reports the other address family".to_string()) }
                        mine.ok_or("the family is missing after decoding".to_string())?.to_blocks().map($set::from).map_err(rr_err)
                    }));
                }
            }
            fn nullary() -> Vec<(&'static str, u8, $set)> {
                vec![(concat!(stringify!($set), "::all()"), 0xff, $set::all()), (concat!(stringify!($set), "::empty()"), 0, $set::empty()), (concat!(stringify!($set), "::default()"), 0, $set::default()),
                    ("ResourceSet::all()", 0xff, ResourceSet::all().$getter().clone()), ("ResourceSet::default()", 0, ResourceSet::default().$getter().clone()),
                    ("IpBlocks::all().into()", 0xff, IpBlocks::all().into()), ("IpBlocks::from_iter([IpBlock::all()]).into()", 0xff, IpBlocks::from_iter([IpBlock::all()]).into()),
                    (concat!(stringify!($set), "::from_iter([", stringify!($block), "::all()])"), 0xff, $set::from_iter([$block::all()])),
                    ("IpBlocks::from_resources(IpResources::missing()).into()", 0, IpBlocks::from_resources(IpResources::missing()).expect("missing resources are no blocks").into())]
            }
            fn ops(a: &$set, b: &$set, emit: &mut dyn FnMut(usize, $set)) {
                emit(0, a.union(b).into());
                emit(1, a.intersection(b).into());
                let mut x: IpBlocks = (**a).clone(); x.intersection_assign(b); emit(2, x.into());
                emit(3, a.difference(b).into());
                if let Ok(t) = b.verify_issued(&IpResources::blocks((**a).clone()), Overclaim::Trim) { emit(4, t.into()) }
            }
            fn of_set(s: &ResourceSet) -> $set { s.$getter().clone() }
            fn val(s: &$set) -> RrVal { $all(s.clone()) }
        }
    };
}

rr_ip_family!(RrV4, Ipv4Blocks, Ipv4Block, true, "ipv4", "v4", 0x0a00_0000, u32::MAX as u128, [0, 1], 32u32, ipv4, RrVal::V4);
rr_ip_family!(RrV6, Ipv6Blocks, Ipv6Block, false, "ipv6", "v6", 0x2001_0db8u128 << 96, u128::MAX, [0, 2], 128u32, ipv6, RrVal::V6);

//--- driver

/// the expected library value of every mask, through the plainest route
struct RrExpected<F: RrFam> { set: Vec<Option<F::Set>>, text: Vec<String> }

/// where a value that goes into a message came from
#[derive(Clone)]
enum RrSrc { List { case: u64, route: usize, k: usize }, Nullary(&'static str), Op { a: u8, b: u8, op: usize } }

struct RrRep { fam: &'static str, src: RrSrc, mask: u8, val: RrVal, deviant: bool }

fn rr_list_of<F: RrFam>(blocks: &[(usize, usize)], max_len: u32, case: u64) -> (Vec<(u128, u128)>, u8) {
    let cells = rr_cells(F::MID, F::TOP);
    let mut s = Vec::new();
    rpki_verif::engine::enumerate::seq_at(blocks.len() as u64, max_len, case, &mut s);
    (s.iter().map(|&i| (cells[blocks[i].0], cells[blocks[i].1])).collect(), s.iter().fold(0u8, |m, &i| m | rr_block_mask(blocks[i].0, blocks[i].1)))
}

fn rr_show_src<F: RrFam>(blocks: &[(usize, usize)], max_len: u32, exp: &RrExpected<F>, src: &RrSrc) -> String {
    match src {
        RrSrc::List { case, route, k } => format!("{} blocks [{}] through {}{}", F::NAME, rr_join::<F>(&rr_list_of::<F>(blocks, max_len, *case).0, true), F::LIST_ROUTES[*route],
            if *k > 0 { format!(" (k = {k})") } else { String::new() }),
        RrSrc::Nullary(name) => format!("{} {name}", F::NAME),
        RrSrc::Op { a, b, op } => format!("{} {} of a = [{}], b = [{}]", F::NAME, RR_OPS[*op], exp.text[*a as usize], exp.text[*b as usize]),
    }
}

fn rr_expected<F: RrFam>(ctx: &Ctx, sp: &Space) -> RrExpected<F> {
    let mut e = RrExpected::<F> { set: Vec::new(), text: Vec::new() };
    for mask in 0..=255u8 {
        let iv = rr_intervals(F::MID, F::TOP, mask);
        sp.eval();
        match guard(|| F::plain(&iv)) {
            Ok((text, Ok(set))) => {
                // the model's intervals on the library's number line
                let want: Vec<(u128, u128)> = if F::NAME == "ipv4" { iv.iter().map(|&(a, b)| (rr_ip_bits(true, a, false), rr_ip_bits(true, b, true))).collect() } else { iv.clone() };
                let got = F::bounds(&set);
                if got != want { ctx.fail("C11.resources.expected.intervals", format!("{} {:?}", F::NAME, text), format!("FromStr of sorted, disjoint, non-touching ranges yields the blocks {got:x?}, the text says {want:x?}")) }
                sp.outcome("plain-route-value");
                e.set.push(Some(set)); e.text.push(text);
            }
            // a refusal is not a statement about messages: nothing is judged for this mask
            Ok((text, Err(_))) => { sp.outcome("plain-route-refused"); e.set.push(None); e.text.push(text) }
            Err(p) => { ctx.fail("C11.resources.routes.nopanic", format!("{} FromStr of {:?}", F::NAME, rr_join::<F>(&iv, false)), p); e.set.push(None); e.text.push(rr_join::<F>(&iv, false)) }
        }
    }
    e
}

#[derive(Default)]
struct RrLocal<S> { evals: u64, out: BTreeMap<&'static str, u64>, nontrivial: u64, fails: Vec<(RrSrc, &'static str, String)>, reps: BTreeMap<(u8, usize), (RrSrc, S)>, deviants: Vec<(RrSrc, u8, S)> }

const RR_DEVIANTS_PER_CHUNK: usize = 4;
const RR_DEVIANTS: usize = 24;

fn rr_src_key(s: &RrSrc) -> (u64, usize, usize) { match s { RrSrc::List { case, route, k } => (*case, *route, *k), RrSrc::Nullary(_) => (0, 0, 0), RrSrc::Op { a, b, op } => ((*a as u64) << 8 | *b as u64, *op, 0) } }

/// one value a route produced, against the expected value of its mask
fn rr_judge<F: RrFam>(exp: &RrExpected<F>, l: &mut RrLocal<F::Set>, src: RrSrc, route_key: usize, mask: u8, got: Result<F::Set, String>) {
    l.evals += 1;
    let Some(want) = &exp.set[mask as usize] else { return };
    let got = match got { Ok(g) => g, Err(_) => { *l.out.entry("route-refused").or_insert(0) += 1; return } };
    if &got != want {
        l.fails.push((src.clone(), "C11.resources.routes.equal", format!("the route yields [{}] = {:x?}, the same numbers through FromStr of sorted, disjoint ranges {:?} yield [{}] = {:x?}",
            got, F::bounds(&got), exp.text[mask as usize], want, F::bounds(want))));
        if l.deviants.len() < RR_DEVIANTS_PER_CHUNK { l.deviants.push((src, mask, got)) }
        return;
    }
    l.reps.entry((mask, route_key)).or_insert((src, got));
}

struct RrMerged<S> { fails: Vec<(RrSrc, &'static str, String)>, reps: BTreeMap<(u8, usize), (RrSrc, S)>, deviants: Vec<(RrSrc, u8, S)> }

fn rr_merge<S>(sp: &Space, g: &Mutex<RrMerged<S>>, l: RrLocal<S>) {
    sp.evals(l.evals); sp.nontrivial(l.nontrivial); sp.merge_outcomes(&l.out);
    let mut g = g.lock().unwrap();
    g.fails.extend(l.fails);
    g.deviants.extend(l.deviants);
    for (k, v) in l.reps {
        match g.reps.get(&k) { Some(old) if rr_src_key(&old.0) <= rr_src_key(&v.0) => {} _ => { g.reps.insert(k, v); } }
    }
}

/// reports in case order, hands the representatives and the first deviants to the message space
fn rr_finish<F: RrFam>(ctx: &Ctx, g: Mutex<RrMerged<F::Set>>, show: &dyn Fn(&RrSrc) -> String, out: &mut Vec<RrRep>) {
    let mut g = g.into_inner().unwrap();
    g.fails.sort_by_key(|f| rr_src_key(&f.0));
    for (src, oracle, detail) in &g.fails { ctx.fail(oracle, show(src), detail.clone()) }
    g.deviants.sort_by_key(|d| rr_src_key(&d.0));
    for (src, mask, set) in g.deviants.into_iter().take(RR_DEVIANTS) { out.push(RrRep { fam: F::NAME, src, mask, val: F::val(&set), deviant: true }) }
    for ((mask, _), (src, set)) in g.reps { out.push(RrRep { fam: F::NAME, src, mask, val: F::val(&set), deviant: false }) }
}

fn rr_lists<F: RrFam>(ctx: &Ctx, sp: &Space, blocks: &[(usize, usize)], max_len: u32, exp: &RrExpected<F>, out: &mut Vec<RrRep>) {
    let total = rpki_verif::engine::enumerate::seq_count(blocks.len() as u64, max_len);
    let g = Mutex::new(RrMerged::<F::Set> { fails: Vec::new(), reps: BTreeMap::new(), deviants: Vec::new() });
    par_chunks(total, 256, |from, to| {
        let mut l = RrLocal::<F::Set> { evals: 0, out: BTreeMap::new(), nontrivial: 0, fails: Vec::new(), reps: BTreeMap::new(), deviants: Vec::new() };
        for case in from..to {
            let (list, mask) = rr_list_of::<F>(blocks, max_len, case);
            // what the order of the list asks of the route
            let in_order = list.windows(2).all(|w| w[0].0 <= w[1].0);
            let chain = list.windows(2).all(|w| w[0].1 < w[1].0 && w[1].0 - w[0].1 > 1);
            let class = if list.len() < 2 { "empty-or-one-block" } else if chain { "already-a-chain" } else if in_order { "in-order-but-overlapping-or-touching" }
                else if list.iter().any(|b| b.1 == F::TOP) { "out-of-order-with-a-block-ending-at-the-top-of-the-space" } else { "out-of-order" };
            if list.len() >= 2 && !chain { l.nontrivial += 1 }
            let before = l.evals;
            let r = guard(|| { let mut got = Vec::new(); F::list_routes(&list, &mut |route, k, r| got.push((route, k, r))); got });
            match r {
                Ok(got) => for (route, k, r) in got { rr_judge(exp, &mut l, RrSrc::List { case, route, k }, route, mask, r) },
                Err(p) => { l.evals += 1; l.fails.push((RrSrc::List { case, route: 0, k: 0 }, "C11.resources.routes.nopanic", format!("one of the routes panicked (the witness names the first): {p}"))) }
            }
            *l.out.entry(class).or_insert(0) += l.evals - before;
        }
        rr_merge(sp, &g, l);
    });
    // routes without arguments
    let mut l = RrLocal::<F::Set> { evals: 0, out: BTreeMap::new(), nontrivial: 0, fails: Vec::new(), reps: BTreeMap::new(), deviants: Vec::new() };
    match guard(F::nullary) {
        Ok(v) => for (i, (name, mask, set)) in v.into_iter().enumerate() { rr_judge(&exp, &mut l, RrSrc::Nullary(name), 1000 + i, mask, Ok(set)); *l.out.entry("no-arguments").or_insert(0) += 1 },
        Err(p) => l.fails.push((RrSrc::Nullary("all() / empty() / default()"), "C11.resources.routes.nopanic", p)),
    }
    rr_merge(sp, &g, l);
    rr_finish::<F>(ctx, g, &|s| rr_show_src::<F>(blocks, max_len, exp, s), out);
}

fn rr_ops<F: RrFam>(ctx: &Ctx, sp: &Space, exp: &RrExpected<F>, out: &mut Vec<RrRep>) {
    let g = Mutex::new(RrMerged::<F::Set> { fails: Vec::new(), reps: BTreeMap::new(), deviants: Vec::new() });
    par_chunks(1 << 16, 512, |from, to| {
        let mut l = RrLocal::<F::Set> { evals: 0, out: BTreeMap::new(), nontrivial: 0, fails: Vec::new(), reps: BTreeMap::new(), deviants: Vec::new() };
        for pair in from..to {
            let (a, b) = ((pair >> 8) as u8, pair as u8);
            let (Some(sa), Some(sb)) = (&exp.set[a as usize], &exp.set[b as usize]) else { continue };
            if a & b != 0 && a != b && a & b != a && a & b != b { l.nontrivial += 1 }
            let r = guard(|| {
                let mut got = Vec::new();
                F::ops(sa, sb, &mut |op, r| got.push((op, r)));
                // the same through the three-family set (the other two families are empty)
                let wrap = |s: &F::Set| match F::val(s) { RrVal::As(x) => ResourceSet::new(x, Ipv4Blocks::empty(), Ipv6Blocks::empty()), RrVal::V4(x) => ResourceSet::new(AsBlocks::empty(), x, Ipv6Blocks::empty()),
                    RrVal::V6(x) => ResourceSet::new(AsBlocks::empty(), Ipv4Blocks::empty(), x) };
                let (ra, rb) = (wrap(sa), wrap(sb));
                got.push((5, F::of_set(&ra.union(&rb))));
                got.push((6, F::of_set(&ra.intersection(&rb))));
                got
            });
            match r {
                Ok(got) => for (op, r) in got {
                    let m = rr_op_model(op, a, b);
                    *l.out.entry(if m == 0 { "result-empty" } else if m == 0xff { "result-the-whole-space" } else if m & 0x80 != 0 { "result-reaches-the-top-of-the-space" } else { "result-below-the-top" }).or_insert(0) += 1;
                    rr_judge(exp, &mut l, RrSrc::Op { a, b, op }, op, m, Ok(r));
                },
                Err(p) => { l.evals += 1; l.fails.push((RrSrc::Op { a, b, op: 0 }, "C11.resources.routes.nopanic", format!("one of the operations panicked (the witness names the first): {p}"))) }
            }
        }
        rr_merge(sp, &g, l);
    });
    rr_finish::<F>(ctx, g, &|s| rr_show_src::<F>(&[], 0, exp, s), out);
}

/// the two messages that carry a value of one family: an entitlement (class resource set and the request
/// limit of an issued certificate) and an issuance request (limit)
fn rr_messages(fx: &Fx, v: &RrVal) -> [prov::Message; 2] {
    let (mut asn, mut v4, mut v6) = (fx.asn[5].clone(), fx.v4[7].clone(), fx.v6[7].clone());
    let mut one = prov::RequestResourceLimit::new();
    match v {
        RrVal::As(x) => { asn = x.clone(); one.with_asn(x.clone()) }
        RrVal::V4(x) => { v4 = x.clone(); one.with_ipv4(x.clone()) }
        RrVal::V6(x) => { v6 = x.clone(); one.with_ipv6(x.clone()) }
    }
    let mut all = prov::RequestResourceLimit::new();
    all.with_asn(asn.clone()); all.with_ipv4(v4.clone()); all.with_ipv6(v6.clone());
    let class = prov::ResourceClassEntitlements::new(fx.class(0), ResourceSet::new(asn, v4, v6), fx.times[0],
        vec![prov::IssuedCert::new(fx.rsyncs[3].clone(), one, fx.certs[1].1.clone())], prov::SigningCert::new(fx.rsyncs[1].clone(), fx.certs[0].1.clone()));
    [prov::Message::list_response(fx.handle(0), fx.handle(1), prov::ResourceClassListResponse::new(vec![class])),
     prov::Message::issue(fx.handle(0), fx.handle(1), prov::IssuanceRequest::new(fx.class(0), all, fx.csrs[0].1.clone()))]
}

fn space_resource_routes(ctx: &Ctx, fx: &Fx) {
    let max_len: u32 = ctx.tier.pick(3, 4);
    let blocks = rr_blocks();
    let mut reps: Vec<RrRep> = Vec::new();

    let sp = ctx.space("resources.routes.lists",
        "per family (AS, IPv4, IPv6): every list of up to N blocks out of the 21 blocks [p, q] over the points 0, 1, M, M+1, TOP-1, TOP of the number line, in every order, through every public route from a block list to a set (FromStr in two spellings, FromIterator in two block forms, the builders with push / extend in every split, *ResourcesBuilder, folded unions, serde, RFC 3779 DER), plus the routes without arguments (all, empty, default); each result against the FromStr value of the sorted, disjoint ranges of the same numbers (whose blocks are checked against the model); non-trivial = lists of two or more blocks that are not already a chain (out of order, overlapping or touching)");
    let (ea, e4, e6) = (rr_expected::<RrAs>(ctx, &sp), rr_expected::<RrV4>(ctx, &sp), rr_expected::<RrV6>(ctx, &sp));
    rr_lists::<RrAs>(ctx, &sp, &blocks, max_len, &ea, &mut reps);
    rr_lists::<RrV4>(ctx, &sp, &blocks, max_len, &e4, &mut reps);
    rr_lists::<RrV6>(ctx, &sp, &blocks, max_len, &e6, &mut reps);
    sp.set("points", serde_json::json!({"as": rr_cells(RrAs::MID, RrAs::TOP).map(|x| RrAs::text(x, x, true)), "ipv4": rr_cells(RrV4::MID, RrV4::TOP).map(|x| RrV4::text(x, x, true)),
        "ipv6": rr_cells(RrV6::MID, RrV6::TOP).map(|x| RrV6::text(x, x, true))}));
    sp.set("routes", serde_json::json!({"as": RrAs::LIST_ROUTES, "ipv4": RrV4::LIST_ROUTES, "ipv6": RrV6::LIST_ROUTES}));
    sp.sample_str(|| format!("{} -> expected {:?}", rr_show_src::<RrV4>(&blocks, max_len, &e4, &RrSrc::List { case: rpki_verif::engine::enumerate::seq_count(21, 1) + 21 * 8 + 5, route: 7, k: 1 }),
        e4.text[(rr_block_mask(1, 3) | rr_block_mask(0, 5)) as usize]));
    sp.done(true, &format!("all lists of <= {max_len} blocks out of 21, three families, every route"));

    let sp = ctx.space("resources.routes.operations",
        "per family: every ordered pair (a, b) of the 256 sets over the 8 atoms of the number line (6 points and the 2 stretches between them, both ends of the space included) through union, intersection, intersection_assign, difference, verify_issued(Trim) and ResourceSet::union / intersection; each result against the FromStr value of the model's a|b, a&b, a&!b; non-trivial = pairs that overlap without one containing the other");
    rr_ops::<RrAs>(ctx, &sp, &ea, &mut reps);
    rr_ops::<RrV4>(ctx, &sp, &e4, &mut reps);
    rr_ops::<RrV6>(ctx, &sp, &e6, &mut reps);
    sp.set("operations", serde_json::json!(RR_OPS));
    sp.sample_str(|| rr_show_src::<RrAs>(&[], 0, &ea, &RrSrc::Op { a: 0b1000_0110, b: 0b1111_0000, op: 3 }));
    sp.done(true, "all 65536 ordered pairs of sets, three families, 7 operations");

    // --- the values the routes produced, inside messages
    let sp = ctx.space("prov.resource_routes",
        "Message::list_response (class resource set and the request limit of an issued certificate) and Message::issue (request limit) carrying, per family, the value each construction route actually produced: one representative per (set, route) of resources.routes.lists / .operations plus the first values that differed from the expected one; written, parsed, compared with the message itself and with the message built from the FromStr value of the sorted, disjoint ranges; non-trivial = distinct written documents");
    let col = Collector::new(sp.clone());
    let show = |r: &RrRep| match r.fam { "as" => rr_show_src::<RrAs>(&blocks, max_len, &ea, &r.src), "ipv4" => rr_show_src::<RrV4>(&blocks, max_len, &e4, &r.src), _ => rr_show_src::<RrV6>(&blocks, max_len, &e6, &r.src) };
    let want = |r: &RrRep| match r.fam { "as" => ea.set[r.mask as usize].clone().map(RrVal::As), "ipv4" => e4.set[r.mask as usize].clone().map(RrVal::V4), _ => e6.set[r.mask as usize].clone().map(RrVal::V6) };
    let deviants = reps.iter().filter(|r| r.deviant).count();
    run_cases(&reps, &col, |r, l| {
        let Some(expected) = want(r) else { return };
        let (got, exp) = (rr_messages(fx, &r.val), rr_messages(fx, &expected));
        for (i, kind) in ["list_response", "issue"].into_iter().enumerate() {
            let wit = || format!("prov.{kind}(resource set / request limit := {})", show(r));
            roundtrip(ctx, "prov", l, &got[i], &wit, &prov_write, &prov_parse);
            l.bump(if r.deviant { "value-differs-from-the-expected-one" } else if matches!(r.src, RrSrc::Op { .. }) { "value-of-an-operation" } else { "value-of-a-list-route" });
            // parse failures are reported by the round trip above
            if let Ok(Ok(back)) = guard(|| prov_parse(&prov_write(&got[i]))) {
                if back != exp[i] {
                    let set = |m: &prov::Message| match m.payload() {
                        prov::Payload::ListResponse(x) => x.classes().first().map(|c| c.resource_set().to_string()).unwrap_or_default(),
                        prov::Payload::Issue(x) => show_req_limit(x.limit()).unwrap_or_default(), _ => String::new() };
                    l.fail(ctx, "C11.prov.resource_routes.expected".into(), &wit, format!("parse(write(m)) differs from the message built from the same numbers as sorted, disjoint text: parsed {}; expected {}", set(&back), set(&exp[i])));
                }
            }
        }
    });
    sp.set("values", serde_json::json!({"representatives": reps.len() - deviants, "differing_from_expected": deviants}));
    sp.sample_str(|| reps.iter().find(|r| matches!(r.src, RrSrc::List { route: 9, .. }) && r.mask == 0xff).map(|r| format!("prov.list_response(resource set / request limit := {})", show(r))).unwrap_or_default());
    col.finish(true, "one representative per (set, route) of the two route spaces, first 24 differing values per family and space");
}

//============ RFC 8183 identity exchange ====================================

fn idx_err<E: std::fmt::Display>(e: E) -> String { e.to_string() }

fn space_idexchange(ctx: &Ctx, fx: &Fx) {
    let k = 2;
    let nh = fx.handles.len();
    let sp = ctx.space("idex.all",
        "ChildRequest::new, ParentResponse::new, PublisherRequest::new (+ set_publisher_handle), RepositoryResponse::new over id-cert contents (2 real ID certificates, 1/2/4 octets, 1 KiB) x handles x service URIs x tags x sia_base x rrdp URI (None or https); star product; non-trivial = distinct written documents");
    let col = Collector::new(sp.clone());
    let special = 1 + fx.texts.iter().position(|t| t == "<&").unwrap_or(3);
    let plain = 1 + fx.texts.iter().position(|t| t == "a").unwrap_or(1);
    let core_tag = [0usize, plain, special];   // Some("") (index 1) is met as a roaming value
    let core_h = [0usize, fx.h_slash255];
    let (nhm, ntm) = (fx.handles_mid, fx.n_tags_mid());
    let core_id = [4usize, 3];   // short contents; the real ID certificates (and 1 KiB) roam, paired with every other field
    let nid = fx.idcerts.len();
    let ns = fx.services.len();
    let id = |i: usize| Base64::from_content(&fx.idcerts[i].1);

    let cases = star2(&[nid, nh], &[nid, nhm], &[&core_id, &core_h], k);
    run_cases(&cases, &col, |c, l| {
        let m = idx::ChildRequest::new(id(c[0]), fx.handle(c[1]));
        roundtrip_g(ctx, "idex", l, &m, &|| format!("idex.child_request(id_cert={},child_handle={})", fx.idcerts[c[0]].0, trunc(&fx.handles[c[1]], 40)),
            &|m| m.to_xml_vec(), &|b| idx::ChildRequest::parse(b).map_err(idx_err), &|m| {
                given_id(fx, m.id_cert(), c[0])?;
                agree!(m.child_handle().as_str(), fx.handles[c[1]].as_str(), "child_handle() vs the handle given");
                agree!(m.tag(), None, "tag() of ChildRequest::new");
                Ok(())
            });
    });
    let cases = star2(&[nid, nh, nh, ns, fx.n_tags()], &[nid, nhm, nhm, ns, ntm], &[&core_id, &core_h, &core_h[..1], &[fx.svc_plain, fx.svc_special], &core_tag], k);
    run_cases(&cases, &col, |c, l| {
        let m = idx::ParentResponse::new(id(c[0]), fx.handle(c[1]), fx.handle(c[2]), fx.services[c[3]].clone(), fx.tag(c[4]));
        roundtrip_g(ctx, "idex", l, &m, &|| format!("idex.parent_response(id_cert={},parent_handle={},child_handle={},service_uri={},tag={})", fx.idcerts[c[0]].0,
            trunc(&fx.handles[c[1]], 40), trunc(&fx.handles[c[2]], 40), trunc(fx.services[c[3]].as_str(), 80), show_opt(&fx.tag(c[4]))),
            &|m| m.to_xml_vec(), &|b| idx::ParentResponse::parse(b).map_err(idx_err), &|m| {
                given_id(fx, m.id_cert(), c[0])?;
                agree!(m.parent_handle().as_str(), fx.handles[c[1]].as_str(), "parent_handle() vs the handle given");
                agree!(m.child_handle().as_str(), fx.handles[c[2]].as_str(), "child_handle() vs the handle given");
                agree!(m.service_uri(), &fx.services[c[3]], "service_uri() vs the uri given");
                agree!(m.tag(), fx.tag(c[4]).as_ref(), "tag() vs the tag given");
                Ok(())
            });
    });
    let cases = star2(&[nid, nh, fx.n_tags(), 2], &[nid, nhm, ntm, 2], &[&core_id, &core_h, &core_tag, &[0, 1]], k);
    run_cases(&cases, &col, |c, l| {
        let m = if c[3] == 0 { idx::PublisherRequest::new(id(c[0]), fx.handle(c[1]), fx.tag(c[2])) } else {
            let mut m = idx::PublisherRequest::new(id(c[0]), fx.handle(0), fx.tag(c[2])); m.set_publisher_handle(fx.handle(c[1])); m };
        roundtrip_g(ctx, "idex", l, &m, &|| format!("idex.publisher_request(id_cert={},publisher_handle={},tag={})", fx.idcerts[c[0]].0,
            trunc(&fx.handles[c[1]], 40), show_opt(&fx.tag(c[2]))),
            &|m| m.to_xml_vec(), &|b| idx::PublisherRequest::parse(b).map_err(idx_err), &|m| {
                given_id(fx, m.id_cert(), c[0])?;
                agree!(m.publisher_handle().as_str(), fx.handles[c[1]].as_str(), "publisher_handle() vs the handle given");
                agree!(m.tag(), fx.tag(c[2]).as_ref(), "tag() vs the tag given");
                Ok(())
            });
    });
    let nr = fx.rsyncs.len(); let nhs = fx.httpss.len() + 1;
    let cases = star2(&[nid, nh, ns, nr, nhs, fx.n_tags()], &[nid, nhm, ns, nr, nhs, ntm], &[&core_id[..1], &core_h[..1], &[fx.svc_plain, fx.svc_special], &[3], &[0, 5], &core_tag], k);
    run_cases(&cases, &col, |c, l| {
        let rrdp = if c[4] == 0 { None } else { Some(fx.httpss[c[4] - 1].clone()) };
        let m = idx::RepositoryResponse::new(id(c[0]), fx.handle(c[1]), fx.services[c[2]].clone(), fx.rsyncs[c[3]].clone(), rrdp.clone(), fx.tag(c[5]));
        roundtrip_g(ctx, "idex", l, &m, &|| format!("idex.repository_response(id_cert={},publisher_handle={},service_uri={},sia_base={},rrdp={:?},tag={})", fx.idcerts[c[0]].0,
            trunc(&fx.handles[c[1]], 40), trunc(fx.services[c[2]].as_str(), 80), trunc(fx.rsyncs[c[3]].as_str(), 80), rrdp.as_ref().map(|u| trunc(u.as_str(), 80)), show_opt(&fx.tag(c[5]))),
            &|m| m.to_xml_vec(), &|b| idx::RepositoryResponse::parse(b).map_err(idx_err), &|m| {
                given_id(fx, m.id_cert(), c[0])?;
                agree!(m.publisher_handle().as_str(), fx.handles[c[1]].as_str(), "publisher_handle() vs the handle given");
                agree!(m.service_uri(), &fx.services[c[2]], "service_uri() vs the uri given");
                agree!(m.sia_base(), &fx.rsyncs[c[3]], "sia_base() vs the uri given");
                agree!(m.rrdp_notification_uri(), rrdp.as_ref(), "rrdp_notification_uri() vs the uri given");
                agree!(m.tag(), fx.tag(c[5]).as_ref(), "tag() vs the tag given");
                Ok(())
            });
    });
    sp.set("alphabet_sizes", serde_json::json!({"id_certs": nid, "handles": nh, "service_uris": ns, "tags": fx.n_tags(), "rsync": nr, "https": nhs, "k": k}));
    sp.sample_str(|| String::from_utf8_lossy(&idx::RepositoryResponse::new(id(2), fx.handle(3), fx.services[fx.svc_special].clone(), fx.rsyncs[3].clone(), Some(fx.httpss[4].clone()), fx.tag(special)).to_xml_vec()).into_owned());
    col.finish(true, &format!("star product, k = {k}"));
}

//============ Size and count as dimensions ==================================
//
// Every quantity that measures or counts something in a message is swept:
// 0..=40, then k-1, k, k+1 around the powers of two up to the documented
// maximum of the quantity or 2^20, with structured (position-dependent)
// content. Same oracles as the small cases; the accessor checks look at the
// first, middle and last element.

/// 0..=40 and the neighbourhoods of the given powers of two, capped at `max`.
fn scale_sizes(powers: &[u32], max: usize) -> Vec<usize> {
    let mut v: Vec<usize> = (0..=40).collect();
    for p in powers { let k = 1usize << p; v.extend([k - 1, k, k + 1]) }
    v.retain(|n| *n <= max);
    v.sort(); v.dedup();
    v
}

fn pattern(n: usize, salt: usize) -> Vec<u8> { (0..n).map(|i| (i.wrapping_mul(31).wrapping_add(salt * 7 + 3) % 251) as u8).collect() }

#[derive(Clone, Debug)]
enum Sc {
    /// one publish (kind 0) / update (1) with n octets of content
    Content(usize, usize),
    /// a delta of n elements: publish, update, withdraw in turn, 3-octet contents
    Delta(usize),
    /// a list reply with n entries
    List(usize),
    /// an error reply with n reports
    Errors(usize),
    /// a list response with n classes, each with one issued certificate
    Classes(usize),
    /// a list response with one class holding n issued certificates
    Issued(usize),
    /// a tag / class name of n characters (0: publish tag, 1: revoke class name, 2: publisher_request tag)
    Text(usize, usize),
    /// an rsync (0), rrdp https (1), service http (2) URI of n characters in a repository_response
    Uri(usize, usize),
    /// an ID certificate element of n octets in each of the four RFC 8183 documents
    IdCert(usize, usize),
}

fn scale_uri(i: usize) -> uri::Rsync { uri::Rsync::from_str(&format!("rsync://host.example/module/dir/object-{i:07}.cer")).unwrap() }
fn scale_hash(i: usize) -> Hash { Hash::from_data(&(i as u64).to_be_bytes()) }
fn long_text(n: usize) -> String { (0..n).map(|i| match i % 13 { 0 => '&', 5 => '<', 9 => '"', 11 if i + 1 < n && i > 0 => ' ', _ => (b'a' + (i % 26) as u8) as char }).collect() }

fn picks(n: usize) -> Vec<usize> { if n == 0 { vec![] } else { let mut v = vec![0, n / 2, n - 1]; v.dedup(); v } }

fn scale_case(ctx: &Ctx, fx: &Fx, c: &Sc, l: &mut Local) {
    let wit = || format!("scale.{c:?}");
    match *c {
        Sc::Content(kind, n) => {
            let bytes = pattern(n, kind);
            let content = Base64::from_content(&bytes);
            let mut d = publ::PublishDelta::empty();
            if kind == 0 { d.add_publish(publ::Publish::new(Some("t".into()), scale_uri(n), content)) }
            else { d.add_update(publ::Update::with_hash_tag(scale_uri(n), content, scale_hash(n))) }
            let m = publ::Message::delta(d);
            roundtrip_g(ctx, "pub.scale", l, &m, &wit, &pub_write, &pub_parse, &|m| {
                match m.clone().as_query().map(|q| match q { publ::Query::Delta(d) => d.into_elements(), _ => vec![] }) {
                    Ok(els) if els.len() == 1 => match &els[0] {
                        publ::PublishDeltaElement::Publish(p) => { agree!(p.content().to_bytes().as_ref(), bytes.as_slice(), "content().to_bytes() vs the content given"); Ok(()) }
                        publ::PublishDeltaElement::Update(p) => { agree!(p.content().to_bytes().as_ref(), bytes.as_slice(), "content().to_bytes() vs the content given"); agree!(p.hash(), &scale_hash(n), "hash()"); Ok(()) }
                        _ => Err("element kind".into()),
                    },
                    _ => Err("not a delta of one element".into()),
                }
            });
        }
        Sc::Delta(n) => {
            let mut d = publ::PublishDelta::empty();
            for i in 0..n { match i % 3 {
                0 => d.add_publish(publ::Publish::new(if i % 2 == 0 { None } else { Some(format!("t{i}")) }, scale_uri(i), Base64::from_content(&pattern(3, i)))),
                1 => d.add_update(publ::Update::new(Some(format!("t&{i}")), scale_uri(i), Base64::from_content(&pattern(i % 5, i)), scale_hash(i))),
                _ => d.add_withdraw(publ::Withdraw::with_hash_tag(scale_uri(i), scale_hash(i))),
            }}
            let m = publ::Message::delta(d);
            roundtrip_g(ctx, "pub.scale", l, &m, &wit, &pub_write, &pub_parse, &|m| {
                let els = match m.clone().as_query() { Ok(publ::Query::Delta(d)) => { agree!(d.len(), n, "len()"); agree!(d.is_empty(), n == 0, "is_empty()"); d.into_elements() } _ => return Err("not a delta".into()) };
                agree!(els.len(), n, "into_elements().len()");
                for i in picks(n) {
                    let u = match &els[i] { publ::PublishDeltaElement::Publish(p) if i % 3 == 0 => p.uri(), publ::PublishDeltaElement::Update(p) if i % 3 == 1 => p.uri(),
                        publ::PublishDeltaElement::Withdraw(p) if i % 3 == 2 => p.uri(), _ => return Err(format!("element {i} of {n} has the wrong kind")) };
                    agree!(u, &scale_uri(i), format!("uri() of element {i} of {n}"));
                }
                Ok(())
            });
        }
        Sc::List(n) => {
            let m = publ::Message::list_reply(publ::ListReply::new((0..n).map(|i| publ::ListElement::new(scale_uri(i), scale_hash(i))).collect()));
            roundtrip_g(ctx, "pub.scale", l, &m, &wit, &pub_write, &pub_parse, &|m| {
                let els = match m.clone().as_reply() { Ok(publ::Reply::List(r)) => r.into_elements(), _ => return Err("not a list reply".into()) };
                agree!(els.len(), n, "elements().len()");
                for i in picks(n) { agree!(els[i].uri(), &scale_uri(i), format!("uri() of entry {i} of {n}")); agree!(els[i].hash(), &scale_hash(i), format!("hash() of entry {i} of {n}")) }
                Ok(())
            });
        }
        Sc::Errors(n) => {
            if n == 0 { return }   // an error reply without reports is an empty list reply on the wire
            let mut r = publ::ErrorReply::empty();
            for i in 0..n { r.add_error(publ::ReportError::with_code(CODES[i % 8].clone())) }
            let m = publ::Message::error(r);
            roundtrip_g(ctx, "pub.scale", l, &m, &wit, &pub_write, &pub_parse, &|m| {
                match m.clone().as_reply() { Ok(publ::Reply::ErrorReply(e)) => { agree!(e.errors().len(), n, "errors().len()");
                    for i in picks(n) { agree!(e.errors()[i], publ::ReportError::with_code(CODES[i % 8].clone()), format!("errors()[{i}] of {n}")) } Ok(()) }
                    _ => Err("not an error reply".into()) }
            });
        }
        Sc::Classes(n) | Sc::Issued(n) => {
            let by_class = matches!(c, Sc::Classes(_));
            let nc = fx.certs.len();
            let issued = |i: usize| prov::IssuedCert::new(scale_uri(i), fx.limit(i % 3, (i / 3) % 3, (i / 9) % 3), fx.certs[i % nc].1.clone());
            let class = |j: usize, certs: Vec<prov::IssuedCert>| prov::ResourceClassEntitlements::new(prov::ResourceClassName::from(format!("class {j}")),
                ResourceSet::new(fx.asn[j % fx.asn.len()].clone(), fx.v4[j % fx.v4.len()].clone(), fx.v6[j % fx.v6.len()].clone()), fx.times[j % fx.times.len()], certs,
                prov::SigningCert::new(scale_uri(1_000_000 + j), fx.certs[j % nc].1.clone()));
            let classes: Vec<_> = if by_class { (0..n).map(|j| class(j, vec![issued(j)])).collect() } else { vec![class(0, (0..n).map(issued).collect())] };
            let m = prov::Message::list_response(fx.handle(0), fx.handle(1), prov::ResourceClassListResponse::new(classes));
            roundtrip_g(ctx, "prov.scale", l, &m, &wit, &prov_write, &prov_parse, &|m| {
                let r = match m.payload() { prov::Payload::ListResponse(r) => r, _ => return Err("not a list response".into()) };
                if by_class {
                    agree!(r.classes().len(), n, "classes().len()");
                    for j in picks(n) {
                        agree!(r.classes()[j].class_name().as_ref(), format!("class {j}").as_str(), format!("class_name() of class {j} of {n}"));
                        agree!(r.classes()[j].issued_certs()[0].uri(), &scale_uri(j), format!("issued uri of class {j} of {n}"));
                        agree!(r.classes()[j].signing_cert().url(), &scale_uri(1_000_000 + j), format!("signing url of class {j} of {n}"));
                    }
                } else {
                    agree!(r.classes()[0].issued_certs().len(), n, "issued_certs().len()");
                    for i in picks(n) {
                        let g = &r.classes()[0].issued_certs()[i];
                        agree!(g.uri(), &scale_uri(i), format!("uri() of certificate {i} of {n}"));
                        agree!(g.req_limit(), &fx.limit(i % 3, (i / 3) % 3, (i / 9) % 3), format!("req_limit() of certificate {i} of {n}"));
                        agree!(cert_id(g.cert()), cert_id(&fx.certs[i % nc].1), format!("cert() of certificate {i} of {n}"));
                    }
                }
                Ok(())
            });
        }
        Sc::Text(field, n) => {
            let t = long_text(n);
            match field {
                0 => { let mut d = publ::PublishDelta::empty(); d.add_withdraw(publ::Withdraw::new(Some(t.clone()), scale_uri(n), scale_hash(n)));
                    roundtrip_g(ctx, "pub.scale", l, &publ::Message::delta(d), &wit, &pub_write, &pub_parse, &|m| match m.clone().as_query() {
                        Ok(publ::Query::Delta(d)) => match &d.into_elements()[0] { publ::PublishDeltaElement::Withdraw(w) => { agree!(w.tag(), Some(&t), "tag()"); Ok(()) } _ => Err("kind".into()) },
                        _ => Err("not a delta".into()) }) }
                1 => { if n == 0 { return }
                    let m = prov::Message::revoke(fx.handle(0), fx.handle(1), prov::RevocationRequest::new(prov::ResourceClassName::from(t.as_str()), fx.keys[2]));
                    roundtrip_g(ctx, "prov.scale", l, &m, &wit, &prov_write, &prov_parse, &|m| match m.payload() {
                        prov::Payload::Revoke(r) => { agree!(r.class_name().as_ref(), t.as_str(), "class_name()"); Ok(()) } _ => Err("kind".into()) }) }
                _ => { let m = idx::PublisherRequest::new(Base64::from_content(b"ABC"), fx.handle(0), Some(t.clone()));
                    roundtrip_g(ctx, "idex.scale", l, &m, &wit, &|m| m.to_xml_vec(), &|b| idx::PublisherRequest::parse(b).map_err(idx_err), &|m| { agree!(m.tag(), Some(&t), "tag()"); Ok(()) }) }
            }
        }
        Sc::Uri(field, n) => {
            let fill = |prefix: &str| -> Option<String> { if n < prefix.len() + 1 { None } else { Some(format!("{prefix}{}", (0..n - prefix.len()).map(|i| if i % 17 == 16 { '&' } else { (b'a' + (i % 26) as u8) as char }).collect::<String>())) } };
            let (sia, rrdp, svc) = match field {
                0 => (fill("rsync://h/m/"), Some("https://h/n.xml".to_string()), Some("https://h/s".to_string())),
                1 => (Some("rsync://h/m/".to_string()), fill("https://h/"), Some("https://h/s".to_string())),
                _ => (Some("rsync://h/m/".to_string()), None, fill("http://h/")),
            };
            let (Some(sia), Some(svc)) = (sia, svc) else { return };
            if field == 1 && rrdp.is_none() { return }
            let (Ok(sia), Ok(rrdp)) = (uri::Rsync::from_str(&sia), rrdp.map(|r| uri::Https::from_str(&r)).transpose()) else { return };
            let svc = if field == 2 { idx::ServiceUri::Http(svc) } else { match idx::ServiceUri::from_str(&svc) { Ok(s) => s, Err(_) => return } };
            let m = idx::RepositoryResponse::new(Base64::from_content(b"ABC"), fx.handle(0), svc.clone(), sia.clone(), rrdp.clone(), None);
            roundtrip_g(ctx, "idex.scale", l, &m, &wit, &|m| m.to_xml_vec(), &|b| idx::RepositoryResponse::parse(b).map_err(idx_err), &|m| {
                agree!(m.sia_base(), &sia, "sia_base()"); agree!(m.rrdp_notification_uri(), rrdp.as_ref(), "rrdp_notification_uri()"); agree!(m.service_uri(), &svc, "service_uri()"); Ok(()) });
        }
        Sc::IdCert(doc, n) => {
            if n == 0 { return }   // an ID certificate of zero octets is not protocol-valid
            let bytes = pattern(n, doc);
            let id = Base64::from_content(&bytes);
            let chk = |got: &Base64| -> Result<(), String> { agree!(got.to_bytes().as_ref(), bytes.as_slice(), "id_cert().to_bytes() vs the content given"); Ok(()) };
            match doc {
                0 => roundtrip_g(ctx, "idex.scale", l, &idx::ChildRequest::new(id, fx.handle(0)), &wit, &|m| m.to_xml_vec(), &|b| idx::ChildRequest::parse(b).map_err(idx_err), &|m| chk(m.id_cert())),
                1 => roundtrip_g(ctx, "idex.scale", l, &idx::ParentResponse::new(id, fx.handle(0), fx.handle(1), fx.services[fx.svc_special].clone(), None), &wit, &|m| m.to_xml_vec(), &|b| idx::ParentResponse::parse(b).map_err(idx_err), &|m| chk(m.id_cert())),
                2 => roundtrip_g(ctx, "idex.scale", l, &idx::PublisherRequest::new(id, fx.handle(0), None), &wit, &|m| m.to_xml_vec(), &|b| idx::PublisherRequest::parse(b).map_err(idx_err), &|m| chk(m.id_cert())),
                _ => roundtrip_g(ctx, "idex.scale", l, &idx::RepositoryResponse::new(id, fx.handle(0), fx.services[fx.svc_plain].clone(), fx.rsyncs[0].clone(), None, None), &wit, &|m| m.to_xml_vec(), &|b| idx::RepositoryResponse::parse(b).map_err(idx_err), &|m| chk(m.id_cert())),
            }
        }
    }
}

fn space_scale(ctx: &Ctx, fx: &Fx) {
    let th = ctx.tier.is_thorough();
    let sp = ctx.space("scale",
        "size and count as dimensions, all three protocols: object content of one publish / update, number of delta elements, list-reply entries, error reports, classes per list response, issued certificates per class, characters of a tag / class name (documented maximum 1024), of an rsync / https / http URI (documented maximum 4096), octets of the ID certificate element of each RFC 8183 document; each swept through 0..=40 and k-1, k, k+1 around powers of two (content and ID certificate: 64 .. 2^20, thorough also 4 MiB; small elements: 64 .. 16384, thorough also 65536; classes / certificates: 64 .. 1024, thorough also 4096 and 8192) with position-dependent content; written documents cross 64 KiB and 1 MB (thorough: 10 MB); oracles as everywhere (well-formed, parses back equal, accessors consistent / as given at first, middle, last / twin); non-trivial = distinct written documents");
    let col = Collector::new(sp.clone());
    let big = [6u32, 7, 8, 10, 12, 14, 16, 18, 20];
    let small_el: &[u32] = if th { &[6, 7, 8, 10, 12, 13, 14, 16] } else { &[6, 7, 8, 10, 12, 13, 14] };
    let certs: &[u32] = if th { &[6, 7, 8, 10, 12, 13] } else { &[6, 7, 8, 10] };
    let mut cases: Vec<Sc> = Vec::new();
    let mut content = scale_sizes(&big, usize::MAX);
    if th { content.extend([(4 << 20) - 1, 4 << 20, (4 << 20) + 1]) }
    for n in &content { for kind in 0..2 { cases.push(Sc::Content(kind, *n)) } for doc in 0..4 { if *n <= (1 << 20) + 1 { cases.push(Sc::IdCert(doc, *n)) } } }
    for n in scale_sizes(small_el, usize::MAX) { cases.push(Sc::Delta(n)); cases.push(Sc::List(n)); if n <= 4097 { cases.push(Sc::Errors(n)) } }
    for n in scale_sizes(certs, usize::MAX) { cases.push(Sc::Classes(n)); cases.push(Sc::Issued(n)) }
    for n in scale_sizes(&[6, 7, 8, 9, 10], 1024) { for f in 0..3 { cases.push(Sc::Text(f, n)) } }
    for n in scale_sizes(&[6, 7, 8, 10, 12], 4096) { for f in 0..3 { cases.push(Sc::Uri(f, n)) } }
    // largest first, so that the big documents do not end up last on one thread
    let weight = |c: &Sc| match *c { Sc::Content(_, n) | Sc::IdCert(_, n) => n, Sc::Delta(n) | Sc::List(n) | Sc::Errors(n) => n * 140, Sc::Classes(n) | Sc::Issued(n) => n * 4000, Sc::Text(_, n) | Sc::Uri(_, n) => n };
    cases.sort_by_key(|c| std::cmp::Reverse(weight(c)));
    let biggest = Mutex::new(0usize);
    let mut failing: Vec<usize> = cases.par_iter().enumerate().filter_map(|(i, c)| {
        let mut l = Local::default();
        scale_case(ctx, fx, c, &mut l);
        let bad = l.failed;
        col.merge(l);
        bad.then_some(i)
    }).collect();
    failing.sort();
    let mut l = Local::reporting();
    for i in failing { scale_case(ctx, fx, &cases[i], &mut l) }
    // document sizes actually reached (measured on the three largest kinds)
    for c in [cases.iter().find(|c| matches!(c, Sc::Content(..))), cases.iter().find(|c| matches!(c, Sc::List(_))), cases.iter().find(|c| matches!(c, Sc::Classes(_)))].into_iter().flatten() {
        let len = match c {
            Sc::Content(k, n) => { let mut d = publ::PublishDelta::empty(); d.add_publish(publ::Publish::new(None, scale_uri(*n), Base64::from_content(&pattern(*n, *k)))); guard(|| pub_write(&publ::Message::delta(d)).len()).unwrap_or(0) }
            Sc::List(n) => guard(|| pub_write(&publ::Message::list_reply(publ::ListReply::new((0..*n).map(|i| publ::ListElement::new(scale_uri(i), scale_hash(i))).collect()))).len()).unwrap_or(0),
            _ => 0,
        };
        let mut b = biggest.lock().unwrap(); if len > *b { *b = len }
    }
    sp.set("largest_publication_document_octets", serde_json::json!(*biggest.lock().unwrap()));
    sp.set("cases", serde_json::json!(cases.len()));
    sp.sample_str(|| format!("{:?} .. {:?}", cases.first(), cases.last()));
    col.finish(true, ctx.tier.pick("0..=40 and power-of-two neighbourhoods: content / ID certificate to 2^20, small elements to 16384, classes / certificates to 1024, texts to 1024, URIs to 4096",
        "0..=40 and power-of-two neighbourhoods: content to 4 MiB, ID certificate to 2^20, small elements to 65536, classes / certificates to 8192, texts to 1024, URIs to 4096"));
}

//============ The library's log statements ==================================

struct TraceLog;
static LOG_RECORDS: std::sync::atomic::AtomicU64 = std::sync::atomic::AtomicU64::new(0);
impl log::Log for TraceLog {
    fn enabled(&self, _: &log::Metadata) -> bool { true }
    fn log(&self, r: &log::Record) {
        // format the arguments, as a real logger would: a panicking Display in a log statement is a panic of the parser
        let s = format!("{} {} {}", r.level(), r.target(), r.args());
        std::hint::black_box(&s);
        LOG_RECORDS.fetch_add(1, std::sync::atomic::Ordering::Relaxed);
    }
    fn flush(&self) {}
}
static TRACE_LOG: TraceLog = TraceLog;

//============ Messages obtained by decoding documents =======================

#[derive(Clone, Copy, PartialEq, Eq, Debug)]
enum Parser { Prov, Pub, Child, Parent, Publisher, Repo }

const PARSERS: [Parser; 6] = [Parser::Prov, Parser::Pub, Parser::Child, Parser::Parent, Parser::Publisher, Parser::Repo];

impl Parser {
    fn name(self) -> &'static str {
        match self { Parser::Prov => "provisioning", Parser::Pub => "publication", Parser::Child => "child_request",
            Parser::Parent => "parent_response", Parser::Publisher => "publisher_request", Parser::Repo => "repository_response" }
    }
    /// Parses; Ok(re-written document) when accepted, Err(error class) when rejected.
    fn run(self, b: &[u8]) -> Result<Box<dyn FnOnce() -> Option<bool>>, &'static str> {
        fn xml_class(e: &rpki::xml::decode::Error) -> &'static str {
            match e { rpki::xml::decode::Error::Xml(_) => "rejected-xml-syntax", rpki::xml::decode::Error::XmlAttr(_) => "rejected-xml-attribute",
                rpki::xml::decode::Error::Malformed => "rejected-malformed" }
        }
        // after acceptance: does the accepted message survive its own round trip? (informational)
        macro_rules! again { ($m:expr, $write:expr, $parse:expr) => {{
            let m = $m; Ok(Box::new(move || { let d = $write(&m); $parse(&d).ok().map(|b| b == m) }) as Box<dyn FnOnce() -> Option<bool>>)
        }}}
        match self {
            Parser::Prov => match prov::Message::decode(b) {
                Ok(m) => again!(m, prov_write, prov_parse),
                Err(prov::Error::XmlError(e)) => Err(xml_class(&e)),
                Err(prov::Error::InvalidCsrSyntax(_)) => Err("rejected-csr"), Err(prov::Error::CertSyntax(_)) => Err("rejected-cert"),
                Err(_) => Err("rejected-other"),
            },
            Parser::Pub => match publ::Message::decode(b) {
                Ok(m) => again!(m, pub_write, pub_parse),
                Err(publ::Error::XmlError(e)) => Err(xml_class(&e)), Err(_) => Err("rejected-other"),
            },
            Parser::Child => match idx::ChildRequest::parse(b) {
                Ok(m) => again!(m, |m: &idx::ChildRequest| m.to_xml_vec(), |d: &Vec<u8>| idx::ChildRequest::parse(d.as_slice())),
                Err(idx::Error::InvalidXml(e)) => Err(xml_class(&e)), Err(_) => Err("rejected-other"),
            },
            Parser::Parent => match idx::ParentResponse::parse(b) {
                Ok(m) => again!(m, |m: &idx::ParentResponse| m.to_xml_vec(), |d: &Vec<u8>| idx::ParentResponse::parse(d.as_slice())),
                Err(idx::Error::InvalidXml(e)) => Err(xml_class(&e)), Err(_) => Err("rejected-other"),
            },
            Parser::Publisher => match idx::PublisherRequest::parse(b) {
                Ok(m) => again!(m, |m: &idx::PublisherRequest| m.to_xml_vec(), |d: &Vec<u8>| idx::PublisherRequest::parse(d.as_slice())),
                Err(idx::Error::InvalidXml(e)) => Err(xml_class(&e)), Err(_) => Err("rejected-other"),
            },
            Parser::Repo => match idx::RepositoryResponse::parse(b) {
                Ok(m) => again!(m, |m: &idx::RepositoryResponse| m.to_xml_vec(), |d: &Vec<u8>| idx::RepositoryResponse::parse(d.as_slice())),
                Err(idx::Error::InvalidXml(e)) => Err(xml_class(&e)), Err(_) => Err("rejected-other"),
            },
        }
    }
}

/// Round trip of a message obtained from `doc` through parser `p` (fields the
/// constructors cannot set: tags on requests, absent descriptions, failed PDUs ...).
fn seed_case(ctx: &Ctx, l: &mut Local, p: Parser, name: &str, doc: &[u8], must_parse: bool) {
    let wit = || format!("seed.{}({name})", p.name());
    macro_rules! go { ($parse:expr, $write:expr) => {{
        match guard(|| $parse(doc)) {
            Err(pn) => { l.evals += 1; ctx.fail(&format!("C11.parse.nopanic.{}", p.name()), wit(), pn) }
            Ok(Err(e)) => { l.evals += 1; l.bump("seed-not-accepted");
                // recorded, not judged: the property does not say which documents must be accepted
                if must_parse { l.rejected_seeds.push(format!("{name}: {e}")) } }
            Ok(Ok(m)) => roundtrip(ctx, "seed", l, &m, &wit, &$write, &$parse),
        }
    }}}
    match p {
        Parser::Prov => go!(prov_parse, prov_write),
        Parser::Pub => go!(pub_parse, pub_write),
        Parser::Child => go!(|b: &[u8]| idx::ChildRequest::parse(b).map_err(idx_err), |m: &idx::ChildRequest| m.to_xml_vec()),
        Parser::Parent => go!(|b: &[u8]| idx::ParentResponse::parse(b).map_err(idx_err), |m: &idx::ParentResponse| m.to_xml_vec()),
        Parser::Publisher => go!(|b: &[u8]| idx::PublisherRequest::parse(b).map_err(idx_err), |m: &idx::PublisherRequest| m.to_xml_vec()),
        Parser::Repo => go!(|b: &[u8]| idx::RepositoryResponse::parse(b).map_err(idx_err), |m: &idx::RepositoryResponse| m.to_xml_vec()),
    }
}

const PUB_NS: &str = "http://www.hactrn.net/uris/rpki/publication-spec/";
const PROV_NS: &str = "http://www.apnic.net/specs/rescerts/up-down/";
const SETUP_NS: &str = "http://www.hactrn.net/uris/rpki/rpki-setup/";

fn space_seeds(ctx: &Ctx, fx: &Fx) {
    let sp = ctx.space("seed.decoded",
        "messages obtained through the public decoders from the repository's captured documents and from hand-written documents that set fields no constructor can set (tag on child_request and report_error, failed_pdu, absent description, referral and offer elements, comments, single-quoted attributes, character references) or that spell values differently (scheme letter case in every URI attribute, upper / mixed-case hex hashes, padded ski, base64 with line breaks, RFC 6492 style and upper-case resource sets, time-zone offsets, namespace without slash); then parse(write(m)) == m and well-formedness; non-trivial = distinct written documents");
    let col = Collector::new(sp.clone());
    let mut l = Local::reporting();
    for f in ["error-reply", "list-reply-empty-short", "list-reply-empty", "list-reply-single", "list-reply", "list", "publish-empty-short", "publish-empty", "publish-multi", "publish-single", "success-reply"] {
        seed_case(ctx, &mut l, Parser::Pub, f, &read(&format!("ca/rfc8181/{f}.xml")), false);
    }
    for f in ["not-performed-response", "revoke-req", "revoke-response"] {
        seed_case(ctx, &mut l, Parser::Prov, f, &read(&format!("ca/rfc6492/{f}.xml")), false);
    }
    for f in ["afrinic-response.der", "apnic-response.der", "apnic-testbed-response.der", "issue-response.der", "issue.der", "list-response.ber", "list.der"] {
        seed_case(ctx, &mut l, Parser::Prov, f, &cms_xml(&format!("ca/rfc6492/{f}")), false);
    }
    for (f, p) in [("afrinic-parent-response", Parser::Parent), ("apnic-parent-response", Parser::Parent), ("krill-0-9-parent-response", Parser::Parent),
                   ("rpkid-parent-response-offer", Parser::Parent), ("rpkid-parent-response-referral", Parser::Parent),
                   ("apnic-repository-response", Parser::Repo), ("krill-0-9-repository-response", Parser::Repo),
                   ("rpkid-child-id", Parser::Child), ("rpkid-publisher-request", Parser::Publisher)] {
        seed_case(ctx, &mut l, p, f, &read(&format!("ca/rfc8183/{f}.xml")), false);
    }
    // hand-written documents
    let h = fx.hashes[2];
    let hand: Vec<(Parser, &str, String)> = vec![
        (Parser::Child, "child_request.tag", format!("<child_request xmlns=\"{SETUP_NS}\" version=\"1\" child_handle=\"c\" tag=\"t&amp;&lt;&quot;&#39;g\"><child_bpki_ta>QUJD</child_bpki_ta></child_request>")),
        (Parser::Child, "child_request.single-quoted", format!("<?xml version='1.0' encoding='UTF-8'?>\n<!-- c --><child_request xmlns='{SETUP_NS}' version='1' child_handle='c' tag='say \"hi\"'>\n<child_bpki_ta>\n QU JD\n</child_bpki_ta><!-- c --></child_request>\n")),
        (Parser::Parent, "parent_response.offer-first", format!("<parent_response xmlns=\"{SETUP_NS}\" version=\"1\" service_uri=\"http://h/a?b&amp;c\" child_handle=\"c\" parent_handle=\"p\"><offer/><parent_bpki_ta>QUJD</parent_bpki_ta><referral referrer=\"x\">QUJD</referral></parent_response>")),
        (Parser::Prov, "error_response.no-description", format!("<message xmlns=\"{PROV_NS}\" version=\"1\" sender=\"s\" recipient=\"r\" type=\"error_response\"><status>0</status></message>")),
        (Parser::Prov, "error_response.max-status", format!("<message xmlns=\"{PROV_NS}\" version=\"1\" sender=\"s\" recipient=\"r\" type=\"error_response\"><status>18446744073709551615</status><description xml:lang=\"en-US\">it's \"so\" > bad</description></message>")),
        (Parser::Prov, "list.prefixed", format!("<u:message xmlns:u=\"{PROV_NS}\" version=\"1\" sender=\"s\" recipient=\"r\" type=\"list\"/>")),
        (Parser::Pub, "report_error.tag+failed_pdu.publish", format!("<msg xmlns=\"{PUB_NS}\" version=\"4\" type=\"reply\"><report_error error_code=\"no_object_present\" tag=\"t&amp;1\"><error_text>text with \"quotes\" and 'apostrophes' ></error_text><failed_pdu><publish tag=\"x\" uri=\"rsync://h/m/a&amp;b\" hash=\"{h}\">QUJD</publish></failed_pdu></report_error></msg>")),
        (Parser::Pub, "report_error.failed_pdu.withdraw", format!("<msg xmlns=\"{PUB_NS}\" version=\"4\" type=\"reply\"><report_error error_code=\"other_error\"><error_text>t</error_text><failed_pdu><withdraw tag=\"\" uri=\"rsync://h/m/a\" hash=\"{h}\"/></failed_pdu></report_error><report_error error_code=\"xml_error\" tag=\"\"><error_text>u</error_text></report_error></msg>")),
        // A report_error without <error_text> is deliberately NOT a judged seed: such a value cannot be
        // constructed from field values (ReportError's constructor always sets a text), and on re-encoding the
        // library fills in the default text of the error code on purpose (error_text_or_default). Demanding
        // equality there would ask for more than the property states (recorded in DESIGN.md, "False alarms").
        (Parser::Pub, "publish.no-tag", format!("<msg xmlns=\"{PUB_NS}\" version=\"4\" type=\"query\"><publish uri=\"rsync://h/m/a\">QUJD</publish><withdraw uri=\"rsync://h/m/b\" hash=\"{h}\"/></msg>")),
        (Parser::Pub, "publish.empty-tag", format!("<msg xmlns=\"{PUB_NS}\" version=\"4\" type=\"query\"><publish tag=\"\" uri=\"rsync://h/m/a\">QUJD</publish></msg>")),
        (Parser::Pub, "publish.char-refs", format!("<msg xmlns=\"{PUB_NS}\" version=\"4\" type=\"query\"><publish tag=\"&#60;&#x26;&#34;\" uri=\"rsync://h/m/a&#38;b\">QUJD</publish></msg>")),
    ];
    for (p, name, doc) in &hand {
        if let Err(e) = wf_check(doc.as_bytes()) { ctx.machinery_error(format!("hand-written seed {name} is not well-formed: {e}")) }
        seed_case(ctx, &mut l, *p, name, doc.as_bytes(), true);
    }
    // --- other spellings of the same values: letter case of schemes, hex digits and keywords, base64 with
    // padding / line breaks, RFC 6492 style resource sets, time zone offsets. Decoded, then judged like every
    // other message obtained through the public API: parse(write(m)) == m and well-formed output.
    let hu = h.to_string().to_ascii_uppercase();
    let hm: String = h.to_string().chars().enumerate().map(|(i, c)| if i % 2 == 0 { c.to_ascii_uppercase() } else { c }).collect();
    let ski_pad = base64::Engine::encode(&base64::engine::general_purpose::URL_SAFE, fx.keys[3].as_slice());
    let ski_std = base64::Engine::encode(&base64::engine::general_purpose::STANDARD_NO_PAD, fx.keys[3].as_slice());
    let idb64 = base64::Engine::encode(&base64::engine::general_purpose::STANDARD, &fx.idcerts[0].1);
    let wrapped = |sep: &str| idb64.as_bytes().chunks(64).map(|c| std::str::from_utf8(c).unwrap()).collect::<Vec<_>>().join(sep);
    let mut spell: Vec<(Parser, String, String)> = vec![
        (Parser::Pub, "list_reply.hash-upper+scheme-upper".into(), format!("<msg xmlns=\"{PUB_NS}\" version=\"4\" type=\"reply\"><list uri=\"RSYNC://H/M/a\" hash=\"{hu}\"/><list uri=\"Rsync://h/m/b\" hash=\"{hm}\"/><list uri=\"rsynC://h/m/c\" hash=\"{h}\"/></msg>")),
        (Parser::Pub, "delta.hash-upper+base64-layout".into(), format!("<msg xmlns=\"{PUB_NS}\" version=\"4\" type=\"query\"><publish tag=\"T\" uri=\"rSyNc://h/M/A.Cer\" hash=\"{hu}\">\n  QU\n\tJD\r\n  RA==\n</publish><publish uri=\"rsync://h/m/q\">QQ==</publish><withdraw uri=\"RSYNC://h/m/b\" hash=\"{hm}\"/></msg>")),
        (Parser::Pub, "publish.base64-unpadded".into(), format!("<msg xmlns=\"{PUB_NS}\" version=\"4\" type=\"query\"><publish uri=\"rsync://h/m/q\">QQ</publish></msg>")),
        (Parser::Pub, "msg.type-upper".into(), format!("<msg xmlns=\"{PUB_NS}\" version=\"4\" type=\"QUERY\"><list/></msg>")),
        (Parser::Pub, "report_error.code-upper".into(), format!("<msg xmlns=\"{PUB_NS}\" version=\"4\" type=\"reply\"><report_error error_code=\"XML_ERROR\"><error_text>t</error_text></report_error></msg>")),
        (Parser::Prov, "revoke.ski-padded".into(), format!("<message xmlns=\"{PROV_NS}\" version=\"1\" sender=\"Child\" recipient=\"PARENT\" type=\"revoke\"><key class_name=\"Class A\" ski=\"{ski_pad}\"/></message>")),
        (Parser::Prov, "revoke.ski-standard-alphabet".into(), format!("<message xmlns=\"{PROV_NS}\" version=\"1\" sender=\"s\" recipient=\"r\" type=\"revoke\"><key class_name=\"c\" ski=\"{ski_std}\"/></message>")),
        (Parser::Prov, "message.type-upper".into(), format!("<message xmlns=\"{PROV_NS}\" version=\"1\" sender=\"s\" recipient=\"r\" type=\"LIST\"/>")),
        (Parser::Child, "child_request.base64-lf-wrapped".into(), format!("<child_request xmlns=\"{SETUP_NS}\" version=\"1\" child_handle=\"Carol\">\n<child_bpki_ta>\n{}\n</child_bpki_ta>\n</child_request>", wrapped("\n"))),
        (Parser::Publisher, "publisher_request.base64-crlf-wrapped+ns-without-slash".into(), format!("<publisher_request xmlns=\"{}\" version=\"1\" publisher_handle=\"ALICE/Bob\" tag=\"Tag\"><publisher_bpki_ta>{}</publisher_bpki_ta></publisher_request>", SETUP_NS.trim_end_matches('/'), wrapped("\r\n"))),
    ];
    for sc in scheme_cases("http").into_iter().chain(scheme_cases("https")) {
        spell.push((Parser::Parent, format!("parent_response.service_uri-scheme={sc}"), format!("<parent_response xmlns=\"{SETUP_NS}\" version=\"1\" service_uri=\"{sc}://Host.Example/Up-Down/a&amp;b\" child_handle=\"c\" parent_handle=\"P\"><parent_bpki_ta>QUJD</parent_bpki_ta></parent_response>")));
        for (r, n) in scheme_cases("rsync").into_iter().zip(scheme_cases("https")) {
            spell.push((Parser::Repo, format!("repository_response.schemes={sc},{r},{n}"), format!("<repository_response xmlns=\"{SETUP_NS}\" version=\"1\" publisher_handle=\"p\" service_uri=\"{sc}://h/x\" sia_base=\"{r}://H/M/d/\" rrdp_notification_uri=\"{n}://H/N.xml\"><repository_bpki_ta>QUJD</repository_bpki_ta></repository_response>")));
        }
    }
    // RFC 6492 documents: the library's own list response with single attribute values respelled
    let docs = seed_documents(fx);
    let lr = String::from_utf8_lossy(&docs.iter().find(|d| d.0 == "prov.list_response").unwrap().2).into_owned();
    for (name, from, to) in [
        ("as-rfc-style", "resource_set_as=\"AS1, AS3-AS5, AS7\"", "resource_set_as=\"1,3-5,7\""),
        ("as-prefix-case", "resource_set_as=\"AS1, AS3-AS5, AS7\"", "resource_set_as=\"as1,As3-aS5, AS7\""),
        ("ipv4-no-blanks", "resource_set_ipv4=\"10.0.0.0/8, 192.168.0.0-192.168.0.9\"", "resource_set_ipv4=\"10.0.0.0/8,192.168.0.0-192.168.0.9\""),
        ("ipv6-upper-hex", "resource_set_ipv6=\"2001:db8::/32, 2001:db9::1-2001:db9::ffff\"", "resource_set_ipv6=\"2001:DB8::/32,2001:DB9::1-2001:DB9::FFFF\""),
        ("ipv6-uncompressed", "resource_set_ipv6=\"2001:db8::/32, 2001:db9::1-2001:db9::ffff\"", "resource_set_ipv6=\"2001:0db8:0:0:0:0:0:0/32, 2001:db9:0::1-2001:db9::0:ffff\""),
        ("notafter-offset-zero", "resource_set_notafter=\"2030-01-02T03:04:05Z\"", "resource_set_notafter=\"2030-01-02T03:04:05+00:00\""),
        ("notafter-offset-hour", "resource_set_notafter=\"2030-01-02T03:04:05Z\"", "resource_set_notafter=\"2030-01-02T04:04:05+01:00\""),
        ("notafter-lower-case", "resource_set_notafter=\"2030-01-02T03:04:05Z\"", "resource_set_notafter=\"2030-01-02t03:04:05z\""),
        ("notafter-zero-fraction", "resource_set_notafter=\"2030-01-02T03:04:05Z\"", "resource_set_notafter=\"2030-01-02T03:04:05.000Z\""),
        ("cert_url-scheme-upper", "cert_url=\"rsync://", "cert_url=\"RSYNC://"),
        ("cert_url-scheme-mixed", "cert_url=\"rsync://", "cert_url=\"rSyNc://"),
        ("req-limit-respelled", "req_resource_set_as=\"AS1, AS3-AS5, AS7\"", "req_resource_set_as=\"1,3-5,as7\""),
        ("type-and-handles-case", "sender=\"-\"", "sender=\"Sender-X\""),
    ] {
        if lr.contains(from) { spell.push((Parser::Prov, format!("list_response.{name}"), lr.replace(from, to))) }
        else { l.rejected_seeds.push(format!("list_response.{name}: attribute to respell not found in the library's output")) }
    }
    for (p, name, doc) in &spell {
        if let Err(e) = wf_check(doc.as_bytes()) {
            // the list_response.* documents derive from the library's own output: if that is malformed the
            // well-formedness oracle reports it where it is written; here the document is merely no seed
            if name.starts_with("list_response.") { l.rejected_seeds.push(format!("{name}: derived from malformed library output: {e}")); continue }
            ctx.machinery_error(format!("hand-written seed {name} is not well-formed: {e}"))
        }
        seed_case(ctx, &mut l, *p, name, doc.as_bytes(), true);
    }
    // --- the CMS wrappers of the captured exchanges: message() / into_message() / unpack() agree, and the
    // wall-clock validate() gives the verdict of validate_at(now) (signature checks themselves belong to C10)
    {
        let ta_key = rpki::ca::idcert::IdCert::decode(read("ca/sigmsg/cms_ta.cer").as_slice()).ok().map(|c| c.public_key().clone());
        for f in ["afrinic-response.der", "apnic-response.der", "apnic-testbed-response.der", "issue-response.der", "issue.der", "list-response.ber", "list.der"] {
            l.evals += 1;
            let bytes = read(&format!("ca/rfc6492/{f}"));
            let wit = || format!("seed.cms(rfc6492/{f})");
            match guard(|| prov::ProvisioningCms::decode(bytes.as_slice())) {
                Err(p) => ctx.fail("C11.parse.nopanic.provisioning", wit(), p),
                Ok(Err(_)) => l.bump("seed-not-accepted"),
                Ok(Ok(cms)) => {
                    l.bump("cms-decoded");
                    ctx.check("C11.seed.accessors.consistent", wit, || {
                        let m = cms.message().clone();
                        agree!(cms.clone().into_message(), m, "ProvisioningCms::into_message vs message()");
                        agree!(cms.clone().unpack().1, m, "ProvisioningCms::unpack vs message()");
                        agree!(prov::Message::decode(cms.clone().unpack().0.content().to_bytes().as_ref()).map_err(|e| e.to_string())?, m, "message() vs decoding the signed content");
                        if let Some(k) = &ta_key { agree!(cms.validate(k).is_ok(), cms.validate_at(k, Time::now()).is_ok(), "ProvisioningCms::validate vs validate_at(now)") }
                        m.sweep().map(|_| ())
                    });
                }
            }
        }
        l.evals += 1;
        let bytes = read("ca/sigmsg/pdu_200.der");
        match guard(|| publ::PublicationCms::decode(bytes.as_slice())) {
            Err(p) => ctx.fail("C11.parse.nopanic.publication", "seed.cms(sigmsg/pdu_200.der)", p),
            Ok(Err(_)) => l.bump("seed-not-accepted"),
            Ok(Ok(cms)) => {
                l.bump("cms-decoded");
                ctx.check("C11.seed.accessors.consistent", || "seed.cms(sigmsg/pdu_200.der)".into(), || {
                    let m = cms.clone().into_message();
                    agree!(cms.clone().unpack().1, m, "PublicationCms::unpack vs into_message()");
                    if let Some(k) = &ta_key {
                        for t in [Time::now(), Time::utc(1990, 1, 1, 0, 0, 0), Time::utc(2200, 1, 1, 0, 0, 0)] { let _ = cms.validate_at(k, t); }
                        agree!(cms.validate(k).is_ok(), cms.validate_at(k, Time::now()).is_ok(), "PublicationCms::validate vs validate_at(now)");
                    }
                    m.sweep().map(|_| ())
                });
            }
        }
    }
    // a not-after with fractional seconds (xsd:dateTime admits them; chrono's DateTime carries them)
    {
        use chrono::{TimeZone, Utc};
        for (label, nanos) in [("0.5s", 500_000_000u32), ("1ns", 1)] {
            let t = Time::new(Utc.with_ymd_and_hms(2030, 1, 2, 3, 4, 5).unwrap() + chrono::Duration::nanoseconds(nanos as i64));
            let e = prov::ResourceClassEntitlements::new(fx.class(0), ResourceSet::empty(), t, vec![], prov::SigningCert::new(fx.rsyncs[1].clone(), fx.certs[0].1.clone()));
            let m = prov::Message::list_response(fx.handle(0), fx.handle(1), prov::ResourceClassListResponse::new(vec![e]));
            roundtrip(ctx, "prov.subsecond", &mut l, &m, &|| format!("prov.list_response(class notafter=2030-01-02T03:04:05Z + {label})"), &prov_write, &prov_parse);
        }
    }
    sp.set("hand_written_documents_not_accepted", serde_json::json!(l.rejected_seeds));
    let mut refused = REFUSED.lock().unwrap().clone(); refused.sort(); refused.dedup();
    sp.set("alphabet_entries_refused_by_a_constructor", serde_json::json!(refused));
    col.merge(l);
    sp.sample_str(|| hand[6].2.clone());
    col.finish(true, &format!("30 captured + {} hand-written + {} respelled documents + 2 fractional times", hand.len(), spell.len()));
}

//============ Parsers on deviating and arbitrary input ======================

const MENU: [u8; 11] = [b'<', b'>', b'&', b'"', b'\'', b'/', b'=', b' ', 0x00, 0xFF, b'a'];

struct PLocal { evals: u64, out: BTreeMap<&'static str, u64>, notrt: Vec<String>, fails: Vec<(String, String, String)> }

/// Panics found in a parallel phase, reported afterwards in witness order.
struct Fails(Mutex<Vec<(String, String, String)>>);

impl Fails {
    fn take(&self, ctx: &Ctx, l: &mut PLocal) {
        let mut g = self.0.lock().unwrap();
        for f in l.fails.drain(..) {
            if g.len() < 100_000 { g.push(f) } else { ctx.fail(&f.0, f.1, f.2) }
        }
    }
    fn report(&self, ctx: &Ctx) {
        let mut g = self.0.lock().unwrap();
        g.sort();
        for (o, w, d) in g.drain(..) { ctx.fail(&o, w, d) }
    }
}

fn parse_case(_ctx: &Ctx, p: Parser, input: &[u8], l: &mut PLocal, wit: &dyn Fn() -> String) {
    parse_case_j(p, input, l, wit, false)
}

/// `judge`: an accepted message must also survive write -> parse as an equal message.
fn parse_case_j(p: Parser, input: &[u8], l: &mut PLocal, wit: &dyn Fn() -> String, judge: bool) {
    l.evals += 1;
    match guard(|| p.run(input)) {
        Err(pn) => { *l.out.entry("PANIC").or_insert(0) += 1; l.fails.push((format!("C11.parse.nopanic.{}", p.name()), wit(), format!("{pn}; input {}", trunc(&String::from_utf8_lossy(input), 300)))) }
        Ok(Err(class)) => *l.out.entry(class).or_insert(0) += 1,
        Ok(Ok(again)) => {
            match guard(again) {
                Err(pn) => { *l.out.entry("PANIC").or_insert(0) += 1; l.fails.push((format!("C11.parse.nopanic.{}", p.name()), wit(), format!("re-encoding / re-parsing the accepted message panicked: {pn}"))) }
                Ok(Some(true)) => *l.out.entry("accepted").or_insert(0) += 1,
                Ok(r) if judge => {
                    *l.out.entry("accepted-ROUNDTRIP-DIFFERS").or_insert(0) += 1;
                    let oracle = if r.is_none() { "C11.grammar.roundtrip.parse" } else { "C11.grammar.roundtrip.equal" };
                    l.fails.push((oracle.into(), wit(), format!("the parser accepts the document, but writing the accepted message and parsing it again {}; document: {}",
                        if r.is_none() { "fails" } else { "gives an unequal message" }, trunc(&String::from_utf8_lossy(input), 400))));
                }
                // informational only: accepted deviating documents need not hold protocol-valid fields
                Ok(_) => { *l.out.entry("accepted-but-own-roundtrip-differs").or_insert(0) += 1; if l.notrt.len() < 2 { l.notrt.push(wit()) } }
            }
        }
    }
}

fn seed_documents(fx: &Fx) -> Vec<(&'static str, Parser, Vec<u8>)> {
    let t = || Some("t&1".to_string());
    let id = Base64::from_content(&fx.idcerts[0].1);
    let cl = Class { name: 0, url: 3, asn: 5, v4: 7, v6: 7, time: 0, signing: 0, issued: vec![Issued { uri: 4, la: 6, lb: 8, lc: 8, cert: 1 }] };
    let e = class_of(fx, &cl);
    let mut delta = publ::PublishDelta::empty();
    delta.add_publish(publ::Publish::new(t(), fx.rsyncs[3].clone(), Base64::from_content(b"abc")));
    delta.add_update(publ::Update::new(t(), fx.rsyncs[1].clone(), Base64::from_content(b"abcd"), fx.hashes[2]));
    delta.add_withdraw(publ::Withdraw::new(t(), fx.rsyncs[1].clone(), fx.hashes[2]));
    let mut er = publ::ErrorReply::for_error(publ::ReportError::with_code(publ::ReportErrorCode::ObjectAlreadyPresent));
    er.add_error(publ::ReportError::with_code(publ::ReportErrorCode::OtherError));
    let req = prov::RevocationRequest::new(fx.class(0), fx.keys[2]);
    let (s, r) = (|| fx.handle::<idx::Sender>(0), || fx.handle::<idx::Recipient>(1));
    vec![
        ("prov.list", Parser::Prov, prov_write(&prov::Message::list(s(), r()))),
        ("prov.list_response", Parser::Prov, prov_write(&prov::Message::list_response(s(), r(), prov::ResourceClassListResponse::new(vec![e.clone()])))),
        ("prov.issue", Parser::Prov, prov_write(&prov::Message::issue(s(), r(), prov::IssuanceRequest::new(fx.class(0), fx.limit(6, 8, 8), fx.csrs[0].1.clone())))),
        ("prov.issue_response", Parser::Prov, prov_write(&prov::Message::issue_response(s(), r(), prov::IssuanceResponse::new(
            e.class_name().clone(), e.resource_set().clone(), e.not_after(), e.issued_certs()[0].clone(), e.signing_cert().clone())))),
        ("prov.revoke", Parser::Prov, prov_write(&prov::Message::revoke(s(), r(), req.clone()))),
        ("prov.revoke_response", Parser::Prov, prov_write(&prov::Message::revoke_response(s(), r(), prov::RevocationResponse::from(&req)))),
        ("prov.error_response", Parser::Prov, prov_write(&prov::Message::not_performed_response(s(), r(), prov::NotPerformedResponse::err_1201()).unwrap())),
        ("pub.list_query", Parser::Pub, pub_write(&publ::Message::list_query())),
        ("pub.list_reply", Parser::Pub, pub_write(&publ::Message::list_reply(publ::ListReply::new(vec![
            publ::ListElement::new(fx.rsyncs[3].clone(), fx.hashes[2]), publ::ListElement::new(fx.rsyncs[1].clone(), fx.hashes[0])])))),
        ("pub.delta", Parser::Pub, pub_write(&publ::Message::delta(delta))),
        ("pub.success", Parser::Pub, pub_write(&publ::Message::success())),
        ("pub.error_reply", Parser::Pub, pub_write(&publ::Message::error(er))),
        ("pub.error_reply.failed_pdu", Parser::Pub, format!("<msg xmlns=\"{PUB_NS}\" version=\"4\" type=\"reply\">\n  <report_error error_code=\"no_object_present\" tag=\"t\">\n    <error_text>text</error_text>\n    <failed_pdu>\n      <publish tag=\"x\" uri=\"rsync://h/m/a&amp;b\" hash=\"{}\">QUJD</publish>\n    </failed_pdu>\n  </report_error>\n</msg>", fx.hashes[2]).into_bytes()),
        ("idex.child_request", Parser::Child, idx::ChildRequest::new(id.clone(), fx.handle(0)).to_xml_vec()),
        ("idex.parent_response", Parser::Parent, idx::ParentResponse::new(id.clone(), fx.handle(0), fx.handle(1), fx.services[fx.svc_special].clone(), t()).to_xml_vec()),
        ("idex.publisher_request", Parser::Publisher, idx::PublisherRequest::new(id.clone(), fx.handle(0), t()).to_xml_vec()),
        ("idex.repository_response", Parser::Repo, idx::RepositoryResponse::new(id, fx.handle(0), fx.services[fx.svc_plain].clone(), fx.rsyncs[3].clone(), Some(fx.httpss[4].clone()), t()).to_xml_vec()),
    ]
}

//============ Parsers on every arrangement of the element kinds ============
//
// Grammar-level deviations: not bytes of one document, but every ordered
// sequence of at most three child elements, over ALL element kinds of the
// namespace (valid instances of each, plus a foreign element, text and a
// comment), inside every envelope and every nesting context -- including the
// kinds that do not belong there.

fn sequences(n: usize, max: u32) -> Vec<Vec<usize>> {
    let total = rpki_verif::engine::enumerate::seq_count(n as u64, max);
    let mut s = Vec::new();
    (0..total).map(|i| { rpki_verif::engine::enumerate::seq_at(n as u64, max, i, &mut s); s.clone() }).collect()
}

fn space_grammar(ctx: &Ctx, fx: &Fx) {
    let sp = ctx.space("parse.grammar",
        "for every envelope / nesting context of the three protocols (publication: msg type=query, type=reply, children of report_error, children of failed_pdu; provisioning: message of each of the 7 types, children of class in list_response and issue_response; RFC 8183: each of the 4 root elements into each of the 4 parsers) every ordered sequence of 0..=3 children over all element kinds of that namespace (valid instances; plus a foreign element, a text node and a comment); the parser must not panic, and a message it accepts must be written and parsed back equal (sequences holding a report_error without error_text are judged for panics only, see DESIGN 4.2); non-trivial = every document (all distinct)");
    let h = fx.hashes[2];
    let b64 = |b: &[u8]| base64::Engine::encode(&base64::engine::general_purpose::STANDARD, b);
    let cert = b64(fx.certs[0].1.to_captured().as_slice());
    let cert2 = b64(fx.certs[1 % fx.certs.len()].1.to_captured().as_slice());
    let csr = b64(fx.csrs[0].1.to_captured().as_slice());
    let ski = base64::Engine::encode(&base64::engine::general_purpose::URL_SAFE_NO_PAD, fx.keys[2].as_slice());

    // (context name, parser, prefix, suffix, kinds, judge-equality-exempt kind names)
    // `needs`: a kind that has to be among the children for the equality of an accepted message to be judged
    // (a report_error without an error_text child is re-encoded with the default text on purpose, DESIGN 4.2)
    struct Ctxt { name: String, parser: Parser, pre: String, post: String, kinds: Vec<(&'static str, String)>, needs: Option<&'static str> }
    let mut ctxts: Vec<Ctxt> = Vec::new();

    // --- RFC 8181
    let pub_kinds: Vec<(&'static str, String)> = vec![
        ("list", "<list/>".into()),
        ("list-element", format!("<list uri=\"rsync://h/m/a\" hash=\"{h}\"/>")),
        ("publish", "<publish tag=\"t\" uri=\"rsync://h/m/a\">QUJD</publish>".into()),
        ("publish-no-tag", "<publish uri=\"rsync://h/m/b\">QUJD</publish>".into()),
        ("publish-empty", "<publish tag=\"t\" uri=\"rsync://h/m/e\"/>".into()),
        ("update", format!("<publish tag=\"t\" uri=\"rsync://h/m/a\" hash=\"{h}\">QUJD</publish>")),
        ("withdraw", format!("<withdraw tag=\"t\" uri=\"rsync://h/m/a\" hash=\"{h}\"/>")),
        ("success", "<success/>".into()),
        ("report_error", "<report_error error_code=\"other_error\"><error_text>t</error_text></report_error>".into()),
        ("report_error-tag-failed_pdu", format!("<report_error error_code=\"no_object_present\" tag=\"t\"><error_text>t</error_text><failed_pdu><withdraw tag=\"t\" uri=\"rsync://h/m/a\" hash=\"{h}\"/></failed_pdu></report_error>")),
        ("report_error-no-text", "<report_error error_code=\"xml_error\"/>".into()),
        ("error_text", "<error_text>t</error_text>".into()),
        ("failed_pdu", "<failed_pdu><publish tag=\"t\" uri=\"rsync://h/m/a\">QUJD</publish></failed_pdu>".into()),
        ("foreign-key", format!("<key class_name=\"a\" ski=\"{ski}\"/>")),
        ("text", "x".into()),
        ("comment", "<!-- c -->".into()),
    ];
    let msg = |t: &str| format!("<msg xmlns=\"{PUB_NS}\" version=\"4\" type=\"{t}\">");
    for t in ["query", "reply"] {
        ctxts.push(Ctxt { name: format!("pub.msg[{t}]"), parser: Parser::Pub, pre: msg(t), post: "</msg>".into(), kinds: pub_kinds.clone(), needs: None });
    }
    ctxts.push(Ctxt { name: "pub.msg[reply]/report_error".into(), parser: Parser::Pub,
        pre: format!("{}<report_error error_code=\"other_error\" tag=\"t\">", msg("reply")), post: "</report_error></msg>".into(), kinds: pub_kinds.clone(), needs: Some("error_text") });
    ctxts.push(Ctxt { name: "pub.msg[reply]/report_error/failed_pdu".into(), parser: Parser::Pub,
        pre: format!("{}<report_error error_code=\"other_error\"><error_text>t</error_text><failed_pdu>", msg("reply")), post: "</failed_pdu></report_error></msg>".into(), kinds: pub_kinds.clone(), needs: None });
    ctxts.push(Ctxt { name: "pub.msg[reply]/list-element,report_error,..".into(), parser: Parser::Pub,
        pre: format!("{}<list uri=\"rsync://h/m/z\" hash=\"{h}\"/><report_error error_code=\"other_error\"><error_text>t</error_text></report_error>", msg("reply")), post: "</msg>".into(), kinds: pub_kinds.clone(), needs: None });

    // --- RFC 6492
    let class_attrs = "class_name=\"a\" cert_url=\"rsync://h/m/a.cer\" resource_set_as=\"AS1\" resource_set_ipv4=\"10.0.0.0/8\" resource_set_ipv6=\"\" resource_set_notafter=\"2030-01-02T03:04:05Z\"";
    let certificate = format!("<certificate cert_url=\"rsync://h/m/c.cer\" req_resource_set_as=\"AS1\">{cert2}</certificate>");
    let certificate2 = format!("<certificate cert_url=\"rsync://h/m/d.cer\" req_resource_set_ipv4=\"10.0.0.0/8\" req_resource_set_ipv6=\"2001:db8::/32\">{cert}</certificate>");
    let certificate_plain = format!("<certificate cert_url=\"rsync://h/m/e.cer\">{cert}</certificate>");
    let issuer = format!("<issuer>{cert}</issuer>");
    let prov_small: Vec<(&'static str, String)> = vec![
        ("certificate", certificate.clone()),
        ("certificate-v4v6-limit", certificate2.clone()),
        ("certificate-no-limit", certificate_plain.clone()),
        ("certificate-no-url", format!("<certificate>{cert}</certificate>")),
        ("issuer", issuer.clone()),
        ("key", format!("<key class_name=\"a\" ski=\"{ski}\"/>")),
        ("status", "<status>1201</status>".into()),
        ("description", "<description xml:lang=\"en-US\">d</description>".into()),
        ("request", format!("<request class_name=\"a\" req_resource_set_as=\"AS1\">{csr}</request>")),
        ("foreign-publish", "<publish uri=\"rsync://h/m/a\">QUJD</publish>".into()),
        ("text", "x".into()),
        ("comment", "<!-- c -->".into()),
    ];
    let mut prov_kinds = prov_small.clone();
    prov_kinds.extend([
        ("class", format!("<class {class_attrs}>{certificate}{issuer}</class>")),
        ("class-no-certificate", format!("<class {class_attrs}>{issuer}</class>")),
        ("class-two-certificates", format!("<class {class_attrs}>{certificate}{certificate_plain}{issuer}</class>")),
        ("class-issuer-first", format!("<class {class_attrs}>{issuer}{certificate2}</class>")),
        ("class-no-issuer", format!("<class {class_attrs}>{certificate}</class>")),
        ("class-empty", format!("<class {class_attrs}/>")),
    ]);
    let message = |t: &str| format!("<message xmlns=\"{PROV_NS}\" version=\"1\" sender=\"s\" recipient=\"r\" type=\"{t}\">");
    for t in ["list", "list_response", "issue", "issue_response", "revoke", "revoke_response", "error_response"] {
        ctxts.push(Ctxt { name: format!("prov.message[{t}]"), parser: Parser::Prov, pre: message(t), post: "</message>".into(), kinds: prov_kinds.clone(), needs: None });
    }
    for t in ["list_response", "issue_response"] {
        let mut kinds = prov_small.clone();
        kinds.push(("class", format!("<class {class_attrs}>{issuer}</class>")));
        ctxts.push(Ctxt { name: format!("prov.message[{t}]/class"), parser: Parser::Prov, pre: format!("{}<class {class_attrs}>", message(t)), post: "</class></message>".into(), kinds, needs: None });
    }

    // --- RFC 8183
    let idex_kinds: Vec<(&'static str, String)> = vec![
        ("child_bpki_ta", "<child_bpki_ta>QUJD</child_bpki_ta>".into()),
        ("parent_bpki_ta", "<parent_bpki_ta>QUJD</parent_bpki_ta>".into()),
        ("publisher_bpki_ta", "<publisher_bpki_ta>QUJD</publisher_bpki_ta>".into()),
        ("repository_bpki_ta", "<repository_bpki_ta>QUJD</repository_bpki_ta>".into()),
        ("parent_bpki_ta-empty", "<parent_bpki_ta/>".into()),
        ("referral", "<referral referrer=\"r\">QUJD</referral>".into()),
        ("offer", "<offer/>".into()),
        ("foreign-success", "<success/>".into()),
        ("text", "x".into()),
        ("comment", "<!-- c -->".into()),
    ];
    let roots = [
        ("child_request", "child_handle=\"c\" tag=\"t\""),
        ("parent_response", "service_uri=\"https://h/x\" child_handle=\"c\" parent_handle=\"p\" tag=\"t\""),
        ("publisher_request", "publisher_handle=\"p\" tag=\"t\""),
        ("repository_response", "publisher_handle=\"p\" service_uri=\"https://h/x\" sia_base=\"rsync://h/m/\" rrdp_notification_uri=\"https://h/n.xml\" tag=\"t\""),
    ];
    for p in [Parser::Child, Parser::Parent, Parser::Publisher, Parser::Repo] {
        for (root, attrs) in roots {
            ctxts.push(Ctxt { name: format!("idex.{root}->{}", p.name()), parser: p,
                pre: format!("<{root} xmlns=\"{SETUP_NS}\" version=\"1\" {attrs}>"), post: format!("</{root}>"), kinds: idex_kinds.clone(), needs: None });
        }
    }

    let fails = Fails(Mutex::new(Vec::new()));
    let notrt: Mutex<Vec<String>> = Mutex::new(Vec::new());
    let mut sizes = Vec::new();
    for c in &ctxts {
        let seqs = sequences(c.kinds.len(), 3);
        sizes.push(format!("{}: {} kinds, {} documents", c.name, c.kinds.len(), seqs.len()));
        // the envelope with well-formed children must be well-formed, or the harness wrote a bad template
        let probe = format!("{}{}{}", c.pre, c.kinds.iter().map(|k| k.1.as_str()).collect::<String>(), c.post);
        if let Err(e) = wf_check(probe.as_bytes()) { ctx.machinery_error(format!("grammar context {} is not well-formed: {e}", c.name)) }
        seqs.par_chunks(16).for_each(|chunk| {
            let mut l = PLocal { evals: 0, out: BTreeMap::new(), notrt: Vec::new(), fails: Vec::new() };
            for s in chunk {
                let doc = format!("{}{}{}", c.pre, s.iter().map(|k| c.kinds[*k].1.as_str()).collect::<String>(), c.post);
                let judge = !s.iter().any(|k| c.kinds[*k].0 == "report_error-no-text")
                    && c.needs.is_none_or(|n| s.iter().any(|k| c.kinds[*k].0 == n));
                parse_case_j(c.parser, doc.as_bytes(), &mut l, &|| format!("grammar ctx={} children=[{}]", c.name, s.iter().map(|k| c.kinds[*k].0).collect::<Vec<_>>().join(",")), judge);
            }
            fails.take(ctx, &mut l);
            sp.evals(l.evals); sp.nontrivial(l.evals); sp.merge_outcomes(&l.out);
            let mut n = notrt.lock().unwrap(); for w in l.notrt { if n.len() < 256 { n.push(w) } }
        });
    }
    fails.report(ctx);
    let mut n = notrt.lock().unwrap().clone(); n.sort(); n.truncate(8);
    sp.set("accepted_unjudged_whose_own_roundtrip_differs_sample", serde_json::json!(n));
    sp.set("contexts", serde_json::json!(sizes));
    sp.sample_str(|| format!("{}{}{}{}", ctxts[1].pre, ctxts[1].kinds[8].1, ctxts[1].kinds[1].1, ctxts[1].post));
    sp.done(true, &format!("{} contexts, all sequences of <= 3 children", ctxts.len()));
}

//============ Parsers and value constructors on every value shape ===========
//
// Every attribute value and every text content of one valid document per
// message type is replaced, one at a time, by a menu of values: the original
// cut at every length, prefixes of the schemes / keywords the value types
// look for, unit patterns of every length 0..=40 (ASCII, white space, and
// multi-octet characters placed so that every byte offset 0..=40 falls inside
// a character once), and hostile values. The same strings go straight into
// the public FromStr / TryFrom / from_* / Deserialize constructors.

fn unescape_xml(s: &str) -> String {
    s.replace("&lt;", "<").replace("&gt;", ">").replace("&quot;", "\"").replace("&apos;", "'").replace("&amp;", "&")
}

fn escape_xml(s: &str) -> String {
    s.replace('&', "&amp;").replace('<', "&lt;").replace('>', "&gt;").replace('"', "&quot;").replace('\'', "&apos;")
}

const KEYWORDS: &[&str] = &["http://", "https://", "rsync://", "HTTP://", "Https://", "list_response", "error_response", "query", "reply", "xml_error",
    "no_object_matching_hash", "AS", "2030-01-02T03:04:05Z", "10.0.0.0/8", "2001:db8::/32"];

const HOSTILE: &[&str] = &["", " ", "\t", "\n", "\r\n", "  a  ", "&amp;", "]]>", "<!--", "%00", "../..", "/", "//", "://", ":", "-", "--", "=", "==", "====", "A", "AB=", "QUJD=", "Q U J D",
    "0", "-1", "+1", " 1", "1 ", "01", "1e9", "0x10", "NaN", "4294967295", "4294967296", "18446744073709551615", "18446744073709551616", "99999999999999999999999999999999999999999",
    "AS", "AS-", "AS1-", "-AS1", "1-2-3", "AS4294967296", "AS5-AS3", "AS1,,AS2", ",", "10.0.0.0/33", "10.0.0.0/", "/8", "10.0.0.0/-1", "1.2.3", "1.2.3.4.5", "256.0.0.0/8", "10.0.0.9-10.0.0.1",
    "::/129", "::-", "::1::2", ":::", "2001:db8::/", "1.2.3.4/8, ::/0", "::ffff:1.2.3.4",
    "2030-02-30T00:00:00Z", "9999-12-31T23:59:60Z", "2030-01-02T03:04:05", "2030-01-02", "+10000-01-01T00:00:00Z", "-0001-01-01T00:00:00Z", "0000-00-00T00:00:00Z", "2030-01-02T03:04:05+24:00", "2030-01-02T03:04:05.9999999999999Z",
    "http", "http:/", "http://", "https://", "rsync://", "rsync://h", "rsync://h/", "rsync://h/m", "rsync://h//", "rsync://h/m/../x", "https:///", "ftp://h/x", "HTTP://", "hTTp:/", "http:\\\\h",
    "zz", "0g", "abcdef", "list", "LIST", "list_response ", "other_error\u{0}"];

/// The menu for one original value. Deterministic, duplicates removed, order kept.
fn value_menu(orig: &str) -> Vec<String> {
    let mut v: Vec<String> = Vec::new();
    let t = orig.trim();
    // (a) the original cut at every length (all lengths up to 200, then the neighbourhoods of powers of two and the last three)
    let cuts: Vec<usize> = (0..=t.len()).filter(|n| *n <= 200 || t.len() - n <= 3 || (n + 1).is_power_of_two() || n.is_power_of_two() || (n - 1).is_power_of_two()).collect();
    for n in &cuts { if t.is_char_boundary(*n) { v.push(t[..*n].to_string()); v.push(t[t.len() - n..].to_string()) } }
    for k in KEYWORDS { for n in 0..=k.len() { v.push(k[..n].to_string()) } }
    // keyword prefix glued to the tail of the original (scheme cut short, rest intact)
    if let Some(i) = t.find("://") { for n in 0..=i + 3 { v.push(format!("{}{}", &t[..n], &t[i + 3..])) } }
    // (a) unit patterns of every length 0..=40
    for n in 0..=40usize {
        v.push("a".repeat(n)); v.push(" ".repeat(n)); v.push("/".repeat(n)); v.push("0".repeat(n)); v.push("=".repeat(n)); v.push(":".repeat(n));
        // a 2-, 3- and 4-octet character starting at byte offset n-1 .. so that offset n falls inside it
        for c in ["\u{e9}", "\u{20ac}", "\u{1F600}"] { v.push(format!("{}{c}{}", "a".repeat(n), "b".repeat(3))); if n < c.len() { v.push(c.repeat(8)) } }
        v.push(format!("{}{}", " ".repeat(n), t)); v.push(format!("{}{}", t, " ".repeat(n)));
    }
    // (b) hostile values, alone and appended to the original
    for h in HOSTILE { v.push(h.to_string()); v.push(format!("{t}{h}")); v.push(format!("{h}{t}")) }
    v.push("a".repeat(10_000)); v.push(format!("{t}{}", "a".repeat(70_000))); v.push("\u{e9}".repeat(5_000));
    let mut seen = HashSet::new();
    v.retain(|s| seen.insert(s.clone()));
    v
}

fn xml_legal(s: &str) -> bool { s.chars().all(|c| c == '\t' || c == '\n' || c == '\r' || (c >= ' ' && c != '\u{FFFE}' && c != '\u{FFFF}')) }

fn show_value(s: &str) -> String { if s.len() <= 60 { format!("{s:?}") } else { format!("{:?}..[{} octets, fnv{:016x}]", trunc(s, 40), s.len(), fnv64(s.as_bytes())) } }

/// The public constructors of the value types the three protocols interpret, on one string.
fn constructors(s: &str) -> Vec<(&'static str, Result<Option<bool>, String>)> {
    // Ok(Some(b)): accepted, b = the value's own text form parses back to an equal value (None where not applicable)
    macro_rules! ctor { ($name:expr, $e:expr) => { ($name, guard(|| $e)) } }
    fn rt<T: PartialEq + std::fmt::Display, E>(v: Result<T, E>, back: impl Fn(&str) -> Result<T, E>) -> Option<bool> { v.ok().map(|v| back(&v.to_string()).ok().is_some_and(|w| w == v)) }
    let owned = s.to_string();
    let json = serde_json::Value::String(owned.clone());
    vec![
        ctor!("ServiceUri::from_str", rt(idx::ServiceUri::from_str(s), idx::ServiceUri::from_str)),
        ctor!("ServiceUri::try_from(String)", rt(idx::ServiceUri::try_from(owned.clone()), idx::ServiceUri::from_str)),
        ctor!("ServiceUri::deserialize", serde_json::from_value::<idx::ServiceUri>(json.clone()).ok().map(|v| idx::ServiceUri::from_str(v.as_str()).ok().is_some_and(|w| w == v))),
        ctor!("Handle::from_str", rt(idx::Handle::<idx::Myself>::from_str(s), idx::Handle::<idx::Myself>::from_str)),
        ctor!("Handle::try_from(String)", rt(idx::Handle::<idx::Child>::try_from(owned.clone()), idx::Handle::<idx::Child>::from_str)),
        ctor!("Handle::try_from(&PathBuf)", idx::Handle::<idx::Parent>::try_from(&std::path::PathBuf::from(s)).ok().map(|h| idx::Handle::<idx::Parent>::try_from(&h.to_path_buf()).ok().is_some_and(|w| w == h))),
        ctor!("Handle::deserialize", serde_json::from_value::<idx::Handle<idx::Publisher>>(json.clone()).ok().map(|v| idx::Handle::<idx::Publisher>::from_str(v.as_str()).ok().is_some_and(|w| w == v))),
        ctor!("ResourceClassName::from_str", prov::ResourceClassName::from_str(s).ok().map(|v| prov::ResourceClassName::from(v.to_string()) == v && v.as_ref() == s)),
        ctor!("ResourceClassName::deserialize", serde_json::from_value::<prov::ResourceClassName>(json.clone()).ok().map(|v| v == prov::ResourceClassName::from(s))),
        ctor!("PayloadType::from_str", prov::PayloadType::from_str(s).ok().map(|v| v.as_ref() == s && v.to_string() == s)),
        ctor!("ReportErrorCode::from_str", rt(publ::ReportErrorCode::from_str(s), publ::ReportErrorCode::from_str)),
        ctor!("Base64::deserialize", serde_json::from_value::<Base64>(json.clone()).ok().map(|v| v.as_str() == s)),
        ctor!("RequestResourceLimit::deserialize", { let _ = serde_json::from_value::<prov::RequestResourceLimit>(serde_json::json!({"asn": s, "v4": s, "v6": s})); None }),
        ctor!("uri::Rsync::from_str", rt(uri::Rsync::from_str(s), uri::Rsync::from_str)),
        ctor!("uri::Https::from_str", rt(uri::Https::from_str(s), uri::Https::from_str)),
        ctor!("rrdp::Hash::from_str", rt(Hash::from_str(s), Hash::from_str)),
        ctor!("KeyIdentifier::from_str", rt(KeyIdentifier::from_str(s), KeyIdentifier::from_str)),
        // resource sets and times: other properties own their laws, here only "no panic"
        ctor!("AsBlocks::from_str", { let _ = AsBlocks::from_str(s).map(|b| b.to_string()); None }),
        ctor!("Ipv4Blocks::from_str", { let _ = Ipv4Blocks::from_str(s).map(|b| b.to_string()); None }),
        ctor!("Ipv6Blocks::from_str", { let _ = Ipv6Blocks::from_str(s).map(|b| b.to_string()); None }),
        ctor!("ResourceSet::from_strs", { let _ = ResourceSet::from_strs(s, s, s).map(|b| b.to_string()); None }),
        ctor!("Time::from_str", { let _ = Time::from_str(s).map(|t| t.to_rfc3339()); None }),
        ctor!("base64::Xml::decode", { let _ = rpki::util::base64::Xml.decode(s); let _ = rpki::util::base64::Slurm.decode(s); None }),
    ]
}

fn space_values(ctx: &Ctx, fx: &Fx) {
    let docs = seed_documents(fx);
    let sp = ctx.space("parse.values",
        "one valid document per message type (17); every attribute value and every text content replaced, one at a time, by each value of a menu: the original cut at every length from both ends, every prefix of the schemes / keywords the value types look for, the scheme cut short in front of the intact rest, unit patterns of every length 0..=40 (a, blank, /, 0, =, :), a 2-, 3- and 4-octet character at every byte offset 0..=40, leading / trailing blanks, hostile values alone and glued to the original, 10 000 / 70 000 octets; the parser must not panic and an accepted message must be written and parsed back equal; non-trivial = replacement values that differ from the original");
    let fails = Fails(Mutex::new(Vec::new()));
    let all_values: Mutex<HashSet<String>> = Mutex::new(HashSet::new());
    let mut nspans = 0usize;
    for (name, p, d) in &docs {
        let Ok(spans) = wf_check(d) else { continue };   // reported by parse.deviations
        let text = String::from_utf8_lossy(d).into_owned();
        let mut targets: Vec<(String, usize, usize)> = Vec::new();
        for (k, (ns, vs, ve)) in spans.values.iter().enumerate() {
            let an = text[*ns..].split(['=', ' ']).next().unwrap_or("").to_string();
            targets.push((format!("attr#{k}:{an}"), *vs, *ve));
        }
        for (k, (a, b)) in spans.texts.iter().enumerate() { targets.push((format!("text#{k}@{a}"), *a, *b)) }
        nspans += targets.len();
        targets.par_iter().for_each(|(what, a, b)| {
            let orig = unescape_xml(&text[*a..*b]);
            let menu = value_menu(&orig);
            let mut l = PLocal { evals: 0, out: BTreeMap::new(), notrt: Vec::new(), fails: Vec::new() };
            let mut nt = 0u64;
            for v in &menu {
                if !xml_legal(v) { continue }
                if *v != orig { nt += 1 }
                let doc = format!("{}{}{}", &text[..*a], escape_xml(v), &text[*b..]);
                parse_case_j(*p, doc.as_bytes(), &mut l, &|| format!("doc={name} {what} := {}", show_value(v)), true);
            }
            fails.take(ctx, &mut l);
            sp.evals(l.evals); sp.nontrivial(nt); sp.merge_outcomes(&l.out);
            all_values.lock().unwrap().extend(menu);
        });
    }
    fails.report(ctx);
    sp.set("value_positions", serde_json::json!(nspans));
    sp.sample_str(|| format!("menu for \"http://h/x\": {} values, e.g. {:?}", value_menu("http://h/x").len(), &value_menu("http://h/x")[..12]));
    sp.done(true, "every attribute value and text content of 17 documents x the whole menu");

    let sp = ctx.space("values.constructors",
        "every distinct string of the parse.values menus (plus the strings holding characters XML cannot carry) straight into the public constructors of the value types: ServiceUri (FromStr, TryFrom<String>, Deserialize), Handle (FromStr, TryFrom<String>, TryFrom<&PathBuf>, Deserialize), ResourceClassName, PayloadType, ReportErrorCode, Base64 and RequestResourceLimit (Deserialize), uri::Rsync, uri::Https, rrdp::Hash, KeyIdentifier, AsBlocks / Ipv4Blocks / Ipv6Blocks / ResourceSet, Time, the two base64 decoders; no constructor may panic, and an accepted ServiceUri / Handle / class name / payload type / error code / URI / hash / key identifier must parse back from its own text form as an equal value; non-trivial = all (every string is distinct)");
    let mut values: Vec<String> = all_values.into_inner().unwrap().into_iter().collect();
    values.extend(["\u{0}".to_string(), "http:/\u{0}".to_string(), "http://\u{0}".to_string(), "a\u{1}b".to_string(), "\u{7f}".to_string(), "\u{FFFE}".to_string()]);
    values.sort(); values.dedup();
    let fails = Fails(Mutex::new(Vec::new()));
    values.par_chunks(64).for_each(|chunk| {
        let mut l = PLocal { evals: 0, out: BTreeMap::new(), notrt: Vec::new(), fails: Vec::new() };
        for s in chunk { for (name, r) in constructors(s) {
            l.evals += 1;
            match r {
                Err(p) => { *l.out.entry("PANIC").or_insert(0) += 1; l.fails.push((format!("C11.values.nopanic.{name}"), format!("{name}({})", show_value(s)), p)) }
                Ok(Some(false)) => { *l.out.entry("accepted-TEXT-FORM-DIFFERS").or_insert(0) += 1; l.fails.push((format!("C11.values.textform.{name}"), format!("{name}({})", show_value(s)), "the accepted value does not parse back from its own text form as an equal value".into())) }
                Ok(Some(true)) => *l.out.entry("accepted").or_insert(0) += 1,
                Ok(None) => *l.out.entry("rejected-or-unjudged").or_insert(0) += 1,
            }
        }}
        fails.take(ctx, &mut l);
        sp.evals(l.evals); sp.nontrivial(l.evals); sp.merge_outcomes(&l.out);
    });
    fails.report(ctx);
    sp.set("strings", serde_json::json!(values.len()));
    sp.done(true, "all menu strings x 23 constructors");
}

fn space_parsers(ctx: &Ctx, fx: &Fx) {
    let docs = seed_documents(fx);
    let sp = ctx.space("parse.deviations",
        "one valid document per message type; every single-octet substitution from the menu < > & \" ' / = space NUL 0xFF a, every truncation, every single-octet deletion, every menu octet inserted at every offset, every attribute and element deleted or duplicated (spans from the strict checker), fed to the document's own parser (and every truncation to all six parsers); thorough: also every pair of substitutions from the same menu on documents under 700 octets; non-trivial = deviating inputs that differ from the seed");
    for (name, p, d) in &docs {
        // the seeds must be valid, or the deviations are not "one step away from valid"; all but one are
        // the library's own output for a protocol-valid message, so a rejection is a round-trip failure
        if guard(|| p.run(d)).ok().and_then(|r| r.ok()).is_none() {
            ctx.fail(&format!("C11.{}.roundtrip.parse", name.split('.').next().unwrap()), format!("doc={name}"),
                format!("the valid seed document is not accepted by its parser: {}", trunc(&String::from_utf8_lossy(d), 400)));
        }
    }
    let notrt: Mutex<Vec<String>> = Mutex::new(Vec::new());
    let fails = Fails(Mutex::new(Vec::new()));
    let merge = |mut l: PLocal, nontrivial: u64| {
        fails.take(ctx, &mut l);
        sp.evals(l.evals); sp.nontrivial(nontrivial); sp.merge_outcomes(&l.out);
        let mut n = notrt.lock().unwrap(); for w in l.notrt { if n.len() < 64 { n.push(w) } }
    };
    let new_local = || PLocal { evals: 0, out: BTreeMap::new(), notrt: Vec::new(), fails: Vec::new() };
    for (name, p, d) in &docs {
        let n = d.len() as u64;
        // substitutions, deletions, insertions, truncations
        par_chunks(n + 1, 32, |lo, hi| {
            let mut l = new_local(); let mut nt = 0u64;
            let mut buf = Vec::with_capacity(d.len() + 1);
            for i in lo as usize..hi as usize {
                parse_case(ctx, *p, &d[..i], &mut l, &|| format!("doc={name} op=truncate@{i}")); if i < d.len() { nt += 1 }
                for q in PARSERS { if q != *p { parse_case(ctx, q, &d[..i], &mut l, &|| format!("doc={name} op=truncate@{i} parser={}", q.name())); } }
                for b in MENU {
                    buf.clear(); buf.extend_from_slice(&d[..i]); buf.push(b); buf.extend_from_slice(&d[i..]);
                    parse_case(ctx, *p, &buf, &mut l, &|| format!("doc={name} op=insert@{i}:{b:02x}")); nt += 1;
                }
                if i == d.len() { continue }
                buf.clear(); buf.extend_from_slice(&d[..i]); buf.extend_from_slice(&d[i + 1..]);
                parse_case(ctx, *p, &buf, &mut l, &|| format!("doc={name} op=delete@{i}")); nt += 1;
                for b in MENU {
                    if d[i] == b { continue }
                    buf.clear(); buf.extend_from_slice(d); buf[i] = b;
                    parse_case(ctx, *p, &buf, &mut l, &|| format!("doc={name} op=sub@{i}:{b:02x}")); nt += 1;
                }
            }
            merge(l, nt);
        });
        // structural: attributes and elements
        match wf_check(d) {
            Err(e) => ctx.fail(&format!("C11.{}.wellformed", name.split('.').next().unwrap()), format!("doc={name}"),
                format!("{e}; document: {}", trunc(&String::from_utf8_lossy(d), 400))),
            Ok(spans) => {
                let mut l = new_local(); let mut nt = 0;
                for (kind, list) in [("attr", &spans.attrs), ("elem", &spans.elems)] {
                    for (j, (a, b)) in list.iter().enumerate() {
                        let mut del = d[..*a].to_vec(); del.extend_from_slice(&d[*b..]);
                        parse_case(ctx, *p, &del, &mut l, &|| format!("doc={name} op=delete-{kind}#{j}@{a}..{b}")); nt += 1;
                        let mut dup = d[..*b].to_vec(); dup.extend_from_slice(&d[*a..*b]); dup.extend_from_slice(&d[*b..]);
                        parse_case(ctx, *p, &dup, &mut l, &|| format!("doc={name} op=duplicate-{kind}#{j}@{a}..{b}")); nt += 1;
                    }
                }
                merge(l, nt);
            }
        }
        // pairs of substitutions
        if ctx.tier.is_thorough() && d.len() < 700 {
            par_chunks(n, 4, |lo, hi| {
                let mut l = new_local(); let mut nt = 0u64;
                let mut buf = d.clone();
                for i in lo as usize..hi as usize { for j in i + 1..d.len() { for b in MENU { for c in MENU {
                    if d[i] == b || d[j] == c { continue }
                    buf[i] = b; buf[j] = c;
                    parse_case(ctx, *p, &buf, &mut l, &|| format!("doc={name} op=sub@{i}:{b:02x}+sub@{j}:{c:02x}")); nt += 1;
                    buf[j] = d[j];
                }} buf[i] = d[i]; }}
                merge(l, nt);
            });
        }
    }
    fails.report(ctx);
    sp.set("documents", serde_json::json!(docs.iter().map(|(n, _, d)| format!("{n}:{} octets", d.len())).collect::<Vec<_>>()));
    let mut n = notrt.lock().unwrap().clone(); n.sort(); n.truncate(12);
    sp.set("accepted_deviations_whose_own_roundtrip_differs_sample", serde_json::json!(n));
    sp.sample_str(|| String::from_utf8_lossy(&docs[9].2).into_owned());
    sp.done(true, ctx.tier.pick("deviation bound 1 on 17 documents", "deviation bound 1 on 17 documents; bound 2 (substitution pairs) on documents under 700 octets"));

    let maxlen = ctx.tier.pick(2u32, 3);
    let sp = ctx.space("parse.short",
        "every octet string up to the length bound into each of the six parsers; non-trivial = all (every string is distinct)");
    let total = rpki_verif::engine::enumerate::seq_count(256, maxlen);
    par_chunks(total, 1 << 14, |lo, hi| {
        let mut l = new_local();
        let mut s = Vec::new(); let mut bytes = Vec::new();
        for i in lo..hi {
            rpki_verif::engine::enumerate::seq_at(256, maxlen, i, &mut s);
            bytes.clear(); bytes.extend(s.iter().map(|x| *x as u8));
            for p in PARSERS { parse_case(ctx, p, &bytes, &mut l, &|| format!("bytes={} parser={}", hex(&bytes), p.name())); }
        }
        fails.take(ctx, &mut l);
        sp.evals(l.evals); sp.nontrivial(l.evals); sp.merge_outcomes(&l.out);
    });
    fails.report(ctx);
    sp.sample_str(|| format!("\"<a>\" into publication: {:?}", publ::Message::decode(&b"<a>"[..]).err().map(|e| e.to_string())));
    sp.done(true, &format!("all octet strings of length <= {maxlen} x 6 parsers"));
}

//============ Sequences, environment, call parameters, shared parts =========
//
// Everything above evaluates one message at a time, each on whatever state the
// worker thread happens to be in. The spaces below sweep what happened BEFORE
// a call (history), who else holds the values (ownership / handed-out parts),
// how the call is made (sink kinds, entry points, format specs) and the
// process environment (TZ).

/// One message of any of the three protocols behind one interface.
#[derive(Clone, Debug, PartialEq)]
enum AnyMsg { Prov(prov::Message), Pub(publ::Message), Child(idx::ChildRequest), Parent(idx::ParentResponse), Publisher(idx::PublisherRequest), Repo(idx::RepositoryResponse) }

impl AnyMsg {
    fn parser(&self) -> Parser {
        match self { AnyMsg::Prov(_) => Parser::Prov, AnyMsg::Pub(_) => Parser::Pub, AnyMsg::Child(_) => Parser::Child, AnyMsg::Parent(_) => Parser::Parent,
            AnyMsg::Publisher(_) => Parser::Publisher, AnyMsg::Repo(_) => Parser::Repo }
    }
    /// the write_xml entry point of the message's type
    fn write_xml<W: io::Write>(&self, w: &mut W) -> Result<(), io::Error> {
        match self { AnyMsg::Prov(m) => m.write_xml(w), AnyMsg::Pub(m) => m.write_xml(w), AnyMsg::Child(m) => m.write_xml(w), AnyMsg::Parent(m) => m.write_xml(w),
            AnyMsg::Publisher(m) => m.write_xml(w), AnyMsg::Repo(m) => m.write_xml(w) }
    }
    /// to_xml_bytes / to_xml_vec
    fn to_vec(&self) -> Vec<u8> {
        match self { AnyMsg::Prov(m) => m.to_xml_bytes().to_vec(), AnyMsg::Pub(m) => m.to_xml_bytes().to_vec(), AnyMsg::Child(m) => m.to_xml_vec(), AnyMsg::Parent(m) => m.to_xml_vec(),
            AnyMsg::Publisher(m) => m.to_xml_vec(), AnyMsg::Repo(m) => m.to_xml_vec() }
    }
    fn to_xml_string(&self) -> String {
        match self { AnyMsg::Prov(m) => m.to_xml_string(), AnyMsg::Pub(m) => m.to_xml_string(), AnyMsg::Child(m) => m.to_xml_string(), AnyMsg::Parent(m) => m.to_xml_string(),
            AnyMsg::Publisher(m) => m.to_xml_string(), AnyMsg::Repo(m) => m.to_xml_string() }
    }
    /// the Display impl, where the type has one
    fn display(&self) -> Option<Box<dyn std::fmt::Display + Send + Sync + '_>> {
        match self { AnyMsg::Prov(_) | AnyMsg::Pub(_) => None, AnyMsg::Child(m) => Some(Box::new(m)), AnyMsg::Parent(m) => Some(Box::new(m)),
            AnyMsg::Publisher(m) => Some(Box::new(m)), AnyMsg::Repo(m) => Some(Box::new(m)) }
    }
    fn parse(p: Parser, b: &[u8]) -> Result<AnyMsg, String> {
        match p {
            Parser::Prov => prov_parse(b).map(AnyMsg::Prov), Parser::Pub => pub_parse(b).map(AnyMsg::Pub),
            Parser::Child => idx::ChildRequest::parse(b).map(AnyMsg::Child).map_err(idx_err), Parser::Parent => idx::ParentResponse::parse(b).map(AnyMsg::Parent).map_err(idx_err),
            Parser::Publisher => idx::PublisherRequest::parse(b).map(AnyMsg::Publisher).map_err(idx_err), Parser::Repo => idx::RepositoryResponse::parse(b).map(AnyMsg::Repo).map_err(idx_err),
        }
    }
    fn sweep(&self) -> Result<Vec<String>, String> {
        match self { AnyMsg::Prov(m) => m.sweep(), AnyMsg::Pub(m) => m.sweep(), AnyMsg::Child(m) => m.sweep(), AnyMsg::Parent(m) => m.sweep(), AnyMsg::Publisher(m) => m.sweep(), AnyMsg::Repo(m) => m.sweep() }
    }
    /// certificates and CSRs are written through base64's EncoderWriter, which retries a sink that
    /// answers Ok(0) for ever (dependency behaviour, not judged): no Ok(0) sinks for these messages
    fn uses_encoder_writer(&self) -> bool {
        match self { AnyMsg::Prov(m) => match m.payload() { prov::Payload::ListResponse(l) => !l.classes().is_empty(), prov::Payload::Issue(_) | prov::Payload::IssueResponse(_) => true, _ => false }, _ => false }
    }
    /// The message taken apart through the public unpack / into_* / accessor API and put together again
    /// through the public constructors (None where a field has no constructor: the tag of a child request).
    fn rebuild(&self) -> Option<AnyMsg> {
        Some(match self.clone() {
            AnyMsg::Prov(m) => { let (s, r, p) = m.unpack(); AnyMsg::Prov(match p {
                prov::Payload::List => prov::Message::list(s, r),
                prov::Payload::ListResponse(l) => prov::Message::list_response(s, r, prov::ResourceClassListResponse::new(l.classes().iter().map(|c| prov::ResourceClassEntitlements::new(
                    c.class_name().clone(), c.resource_set().clone(), c.not_after(),
                    c.issued_certs().iter().map(|i| { let (u, l, c) = i.clone().unpack(); prov::IssuedCert::new(u, l, c) }).collect(),
                    prov::SigningCert::new(c.signing_cert().url().clone(), c.signing_cert().cert().clone()))).collect())),
                prov::Payload::Issue(q) => { let (n, l, c) = q.unpack(); prov::Message::issue(s, r, prov::IssuanceRequest::new(n, l, c)) }
                prov::Payload::IssueResponse(q) => prov::Message::issue_response(s, r, q),
                prov::Payload::Revoke(q) => { let (n, k) = q.unpack(); prov::Message::revoke(s, r, prov::RevocationRequest::new(n, k)) }
                prov::Payload::RevokeResponse(q) => { let el: &prov::KeyElement = &q; prov::Message::revoke_response(s, r, prov::RevocationResponse::new(el.clone())) }
                prov::Payload::ErrorResponse(e) => prov::Message::not_performed_response(s, r, e).ok()?,
            })}
            AnyMsg::Pub(m) => AnyMsg::Pub(match m {
                publ::Message::Query(publ::Query::List) => publ::Message::list_query(),
                publ::Message::Query(publ::Query::Delta(d)) => { let mut n = publ::PublishDelta::empty(); for e in d.into_elements() { match e {
                    publ::PublishDeltaElement::Publish(p) => { let (t, u, c) = p.unpack(); n.add_publish(publ::Publish::new(t, u, c)) }
                    publ::PublishDeltaElement::Update(p) => { let (t, u, c, h) = p.unpack(); n.add_update(publ::Update::new(t, u, c, h)) }
                    publ::PublishDeltaElement::Withdraw(p) => { let (t, u, h) = p.unpack(); n.add_withdraw(publ::Withdraw::new(t, u, h)) }
                }} publ::Message::delta(n) }
                publ::Message::Reply(publ::Reply::List(l)) => publ::Message::list_reply(publ::ListReply::new(l.into_elements().into_iter().map(|e| { let (u, h) = e.unpack(); publ::ListElement::new(u, h) }).collect())),
                publ::Message::Reply(publ::Reply::Success) => publ::Message::success(),
                publ::Message::Reply(publ::Reply::ErrorReply(e)) => { let mut n = publ::ErrorReply::empty(); for r in e.errors() { n.add_error(r.clone()) } publ::Message::error(n) }
            }),
            AnyMsg::Child(m) => { let (i, h, t) = m.unpack(); if t.is_some() { return None } AnyMsg::Child(idx::ChildRequest::new(i, h)) }
            AnyMsg::Parent(m) => AnyMsg::Parent(idx::ParentResponse::new(m.id_cert().clone(), m.parent_handle().clone(), m.child_handle().clone(), m.service_uri().clone(), m.tag().cloned())),
            AnyMsg::Publisher(m) => { let (i, h, t) = m.unpack(); AnyMsg::Publisher(idx::PublisherRequest::new(i, h, t)) }
            AnyMsg::Repo(m) => AnyMsg::Repo(idx::RepositoryResponse::new(m.id_cert().clone(), m.publisher_handle().clone(), m.service_uri().clone(), m.sia_base().clone(), m.rrdp_notification_uri().cloned(), m.tag().cloned())),
        })
    }
}

/// A message with the same identity as `m` (same type, handles, URIs, tags, class names) and other content.
fn variant(fx: &Fx, m: &AnyMsg) -> Option<AnyMsg> {
    let other_set = || ResourceSet::new(fx.asn[3].clone(), fx.v4[2].clone(), fx.v6[2].clone());
    Some(match m.clone() {
        AnyMsg::Prov(m) => { let (s, r, p) = m.unpack(); AnyMsg::Prov(match p {
            prov::Payload::List => return None,
            prov::Payload::ListResponse(l) => prov::Message::list_response(s, r, prov::ResourceClassListResponse::new(match l.classes().first() {
                None => vec![prov::ResourceClassEntitlements::new(prov::ResourceClassName::from("other"), other_set(), fx.times[2], vec![], prov::SigningCert::new(fx.rsyncs[1].clone(), fx.certs[0].1.clone()))],
                Some(c) => vec![prov::ResourceClassEntitlements::new(c.class_name().clone(), other_set(), fx.times[2], vec![], c.signing_cert().clone())] })),
            prov::Payload::Issue(q) => { let (n, _, c) = q.unpack(); prov::Message::issue(s, r, prov::IssuanceRequest::new(n, fx.limit(2, 0, 3), c)) }
            prov::Payload::IssueResponse(q) => { let i = q.into_issued(); let e = class_of(fx, &Class { name: 0, url: 3, asn: 3, v4: 2, v6: 2, time: 2, signing: 0, issued: vec![] });
                prov::Message::issue_response(s, r, prov::IssuanceResponse::new(e.class_name().clone(), other_set(), fx.times[2], i, e.signing_cert().clone())) }
            prov::Payload::Revoke(q) => prov::Message::revoke(s, r, prov::RevocationRequest::new(q.class_name().clone(), fx.keys[1])),
            prov::Payload::RevokeResponse(q) => prov::Message::revoke_response(s, r, prov::RevocationResponse::from(&prov::RevocationRequest::new(q.class_name().clone(), fx.keys[1]))),
            prov::Payload::ErrorResponse(_) => prov::Message::not_performed_response(s, r, prov::NotPerformedResponse::err_1302()).ok()?,
        })}
        AnyMsg::Pub(m) => AnyMsg::Pub(match m {
            publ::Message::Query(publ::Query::List) | publ::Message::Reply(publ::Reply::Success) => return None,
            publ::Message::Query(publ::Query::Delta(d)) => { let mut n = publ::PublishDelta::empty(); for e in d.into_elements() { match e {
                publ::PublishDeltaElement::Publish(p) => { let (t, u, _) = p.unpack(); n.add_publish(publ::Publish::new(t, u, Base64::from_content(b"other content"))) }
                publ::PublishDeltaElement::Update(p) => { let (t, u, _, _) = p.unpack(); n.add_update(publ::Update::new(t, u, Base64::from_content(b"other"), fx.hashes[0])) }
                publ::PublishDeltaElement::Withdraw(p) => { let (t, u, _) = p.unpack(); n.add_withdraw(publ::Withdraw::new(t, u, fx.hashes[0])) }
            }} publ::Message::delta(n) }
            publ::Message::Reply(publ::Reply::List(l)) => { let mut els: Vec<publ::ListElement> = l.into_elements().into_iter().enumerate().map(|(i, e)| publ::ListElement::new(e.unpack().0, scale_hash(i))).collect();
                if els.is_empty() { els.push(publ::ListElement::new(fx.rsyncs[1].clone(), fx.hashes[0])) } publ::Message::list_reply(publ::ListReply::new(els)) }
            publ::Message::Reply(publ::Reply::ErrorReply(e)) => { let mut n = publ::ErrorReply::empty(); for _ in e.errors() { n.add_error(publ::ReportError::with_code(publ::ReportErrorCode::ConsistencyProblem)) } publ::Message::error(n) }
        }),
        AnyMsg::Child(m) => { let (_, h, t) = m.unpack(); if t.is_some() { return None } AnyMsg::Child(idx::ChildRequest::new(Base64::from_content(b"another certificate"), h)) }
        AnyMsg::Parent(m) => AnyMsg::Parent(idx::ParentResponse::new(Base64::from_content(b"another certificate"), m.parent_handle().clone(), m.child_handle().clone(), fx.services[fx.svc_plain].clone(), m.tag().cloned())),
        AnyMsg::Publisher(m) => { let (_, h, t) = m.unpack(); AnyMsg::Publisher(idx::PublisherRequest::new(Base64::from_content(b"another certificate"), h, t)) }
        AnyMsg::Repo(m) => AnyMsg::Repo(idx::RepositoryResponse::new(Base64::from_content(b"another certificate"), m.publisher_handle().clone(), m.service_uri().clone(), fx.rsyncs[2].clone(), None, m.tag().cloned())),
    })
}

fn hd<T>(s: &str) -> idx::Handle<T> { idx::Handle::from_str(s).expect("menu handle") }
fn text(v: &[u8]) -> String { String::from_utf8_lossy(v).into_owned() }

/// One message of every type of the three protocols (and a few more shapes): special characters in every
/// escaped position, tags absent / empty / present, short and long values, with and without certificates.
fn message_menu(fx: &Fx) -> Vec<(&'static str, AnyMsg)> {
    let mut v = message_menu_built(fx);
    let failed_pdu = format!("<msg xmlns=\"{PUB_NS}\" version=\"4\" type=\"reply\"><report_error error_code=\"no_object_present\" tag=\"t&amp;1\"><error_text>text with \"quotes\" and 'apostrophes' ></error_text><failed_pdu><publish tag=\"x\" uri=\"rsync://h/m/a&amp;b\" hash=\"{}\">QUJD</publish></failed_pdu></report_error></msg>", fx.hashes[2]);
    // messages only a decoder can make (failed_pdu, tag on a child request)
    if let Ok(m) = pub_parse(failed_pdu.as_bytes()) { v.push(("pub.error_reply.failed_pdu", AnyMsg::Pub(m))) }
    if let Ok(m) = idx::ChildRequest::parse(CHILD_WITH_TAG.as_bytes()) { v.push(("idex.child_request.tag", AnyMsg::Child(m))) }
    v
}

const CHILD_WITH_TAG: &str = "<child_request xmlns=\"http://www.hactrn.net/uris/rpki/rpki-setup/\" version=\"1\" child_handle=\"Carol/1\" tag=\"t&amp;&lt;&quot;&#39;g\"><child_bpki_ta>QUJD</child_bpki_ta></child_request>";

/// The messages of the menu that the public constructors make: nothing is written or parsed here.
fn message_menu_built(fx: &Fx) -> Vec<(&'static str, AnyMsg)> {
    let special = fx.texts.iter().position(|t| t == "<&").map(|p| p - 1).unwrap_or(2);
    let t = |s: &str| Some(s.to_string());
    let cl = Class { name: special, url: 3, asn: 5, v4: 7, v6: 7, time: 0, signing: 0, issued: vec![Issued { uri: 4, la: 6, lb: 8, lc: 8, cert: 1 }] };
    let e = class_of(fx, &cl);
    let req = prov::RevocationRequest::new(prov::ResourceClassName::from("a\"b'c > d"), fx.keys[3]);
    let mut delta = publ::PublishDelta::empty();
    delta.add_publish(publ::Publish::new(t("t<&\"'>1"), fx.rsyncs[3].clone(), Base64::from_content(b"abc")));
    delta.add_update(publ::Update::new(None, fx.rsyncs[1].clone(), Base64::from_content(b"abcd"), fx.hashes[2]));
    delta.add_withdraw(publ::Withdraw::new(t(""), fx.rsyncs[4].clone(), fx.hashes[1]));
    let mut long_delta = publ::PublishDelta::empty();
    long_delta.add_withdraw(publ::Withdraw::new(Some(long_text(200)), scale_uri(7), scale_hash(7)));
    long_delta.add_publish(publ::Publish::with_hash_tag(scale_uri(8), Base64::from_content(&pattern(100, 1))));
    let mut er = publ::ErrorReply::for_error(publ::ReportError::with_code(publ::ReportErrorCode::ObjectAlreadyPresent));
    er.add_error(publ::ReportError::with_code(publ::ReportErrorCode::OtherError));
    let short_id = || Base64::from_content(&fx.idcerts[4].1);
    vec![
        ("prov.list", AnyMsg::Prov(prov::Message::list(hd("child"), hd("Parent/1")))),
        ("prov.list.long-handles", AnyMsg::Prov(prov::Message::list(fx.handle(fx.h_a255), fx.handle(fx.h_slash255)))),
        // (a class without certificates: the certificate element is met in prov.issue_response, several classes and certificates among the predecessors)
        ("prov.list_response", AnyMsg::Prov(prov::Message::list_response(hd("child"), hd("parent"), prov::ResourceClassListResponse::new(vec![class_of(fx, &Class { name: 1, url: 2, asn: 6, v4: 9, v6: 8, time: 4, signing: 2, issued: vec![] })])))),
        ("prov.list_response.empty", AnyMsg::Prov(prov::Message::list_response(hd("child"), hd("parent"), prov::ResourceClassListResponse::new(vec![])))),
        ("prov.issue", AnyMsg::Prov(prov::Message::issue(hd("child"), hd("parent"), prov::IssuanceRequest::new(fx.class(special), fx.limit(6, 8, 8), fx.csrs[0].1.clone())))),
        ("prov.issue_response", AnyMsg::Prov(prov::Message::issue_response(hd("child"), hd("parent"), prov::IssuanceResponse::new(
            e.class_name().clone(), e.resource_set().clone(), e.not_after(), e.issued_certs()[0].clone(), e.signing_cert().clone())))),
        ("prov.revoke", AnyMsg::Prov(prov::Message::revoke(hd("child"), hd("parent"), req.clone()))),
        ("prov.revoke_response", AnyMsg::Prov(prov::Message::revoke_response(hd("_"), hd("-"), prov::RevocationResponse::from(&req)))),
        ("prov.error_response", AnyMsg::Prov(prov::Message::not_performed_response(hd("parent"), hd("child"), prov::NotPerformedResponse::err_1201()).expect("constructor"))),
        ("pub.list_query", AnyMsg::Pub(publ::Message::list_query())),
        ("pub.list_reply", AnyMsg::Pub(publ::Message::list_reply(publ::ListReply::new(vec![
            publ::ListElement::new(fx.rsyncs[2].clone(), fx.hashes[2]), publ::ListElement::new(fx.rsyncs[3].clone(), fx.hashes[0]), publ::ListElement::new(fx.rsyncs[1].clone(), fx.hashes[1])])))),
        ("pub.list_reply.empty", AnyMsg::Pub(publ::Message::list_reply(publ::ListReply::empty()))),
        ("pub.delta", AnyMsg::Pub(publ::Message::delta(delta))),
        ("pub.delta.long-tag", AnyMsg::Pub(publ::Message::delta(long_delta))),
        ("pub.success", AnyMsg::Pub(publ::Message::success())),
        ("pub.error_reply", AnyMsg::Pub(publ::Message::error(er))),
        ("idex.child_request", AnyMsg::Child(idx::ChildRequest::new(short_id(), hd("Carol/1")))),
        ("idex.parent_response", AnyMsg::Parent(idx::ParentResponse::new(Base64::from_content(&fx.idcerts[0].1), hd("Parent"), hd("Carol/1"), fx.services[fx.svc_special].clone(), t("t<&\"'>1")))),
        ("idex.publisher_request", AnyMsg::Publisher(idx::PublisherRequest::new(short_id(), hd("Alice_Bob"), t("t&1")))),
        ("idex.repository_response", AnyMsg::Repo(idx::RepositoryResponse::new(short_id(), hd("Alice_Bob"), fx.services[fx.svc_plain].clone(), fx.rsyncs[3].clone(), Some(fx.httpss[4].clone()), t("t'1")))),
        ("idex.repository_response.minimal", AnyMsg::Repo(idx::RepositoryResponse::new(short_id(), hd("p"), fx.services[fx.svc_special].clone(), fx.rsyncs[0].clone(), None, None))),
    ]
}

/// What a sink does once its budget of octets is used up.
#[derive(Clone, Copy, Debug, PartialEq, Eq)]
enum Fault { Error, Zero, Panic }

/// Accepts `budget` octets, then fails in the chosen way (a panicking sink panics once, then reports errors:
/// the writer's destructors run while the first panic unwinds).
struct FaultySink { budget: usize, fault: Fault, got: Vec<u8>, panicked: bool }

impl FaultySink { fn new(budget: usize, fault: Fault) -> Self { FaultySink { budget, fault, got: Vec::new(), panicked: false } } }

impl io::Write for FaultySink {
    fn write(&mut self, buf: &[u8]) -> io::Result<usize> {
        if buf.is_empty() { return Ok(0) }
        let room = self.budget.saturating_sub(self.got.len());
        if room == 0 {
            return match self.fault {
                Fault::Zero => Ok(0),
                Fault::Panic if !self.panicked => { self.panicked = true; panic!("sink panics after {} octets", self.budget) }
                _ => Err(io::Error::other("sink is full")),
            }
        }
        let n = room.min(buf.len());
        self.got.extend_from_slice(&buf[..n]);
        Ok(n)
    }
    fn flush(&mut self) -> io::Result<()> { Ok(()) }
}

/// A fmt::Write that fails once more than `budget` octets have been offered.
struct FaultyFmt { budget: usize, got: usize }
impl std::fmt::Write for FaultyFmt {
    fn write_str(&mut self, s: &str) -> std::fmt::Result {
        if self.got + s.len() > self.budget { self.got = self.budget; Err(std::fmt::Error) } else { self.got += s.len(); Ok(()) }
    }
}

type Act<'a> = Box<dyn Fn() -> String + Send + Sync + 'a>;

/// Runs `f` on a dedicated, new OS thread (fresh thread-locals) and waits for it.
fn on_fresh_thread<T: Send>(f: impl FnOnce() -> T + Send) -> T {
    std::thread::scope(|s| s.spawn(f).join().unwrap_or_else(|_| panic!("history thread died")))
}

/// One observation: everything observable as text; a panic is an observation too.
fn observe(f: &(dyn Fn() -> String + Send + Sync)) -> String {
    match guard(f) { Ok(s) => s, Err(p) => format!("PANIC: {p}") }
}

/// The part of `a` around the first place where it differs from `b`.
fn first_difference(a: &str, b: &str) -> String {
    let k = a.bytes().zip(b.bytes()).position(|(x, y)| x != y).unwrap_or(a.len().min(b.len()));
    let mut from = k.saturating_sub(60);
    while !a.is_char_boundary(from) { from -= 1 }
    format!("[at octet {k}] ...{}", &a[from..])
}

/// Oracles (i) and (ii) on one message through every writer entry point, as text.
fn observe_roundtrip(m: &AnyMsg) -> String {
    let mut doc = Vec::new();
    let w = m.write_xml(&mut doc).map_err(|e| e.to_string());
    let wf = match wf_check(&doc) { Ok(_) => "well-formed".to_string(), Err(e) => format!("NOT WELL-FORMED ({e})") };
    let back = match AnyMsg::parse(m.parser(), &doc) {
        Ok(b) if b == *m => "parses back equal".to_string(),
        Ok(b) => format!("PARSES BACK UNEQUAL: {}", trunc(&format!("{b:?}"), 600)),
        Err(e) => format!("DOES NOT PARSE BACK: {e}"),
    };
    // the other entry points give the same octets
    let same = |what: &str, got: &[u8]| if got == doc.as_slice() { format!("{what} agrees") } else { format!("{what} DIFFERS: {}", trunc(&first_difference(&text(got), &text(&doc)), 300)) };
    let (a, b, c) = (m.to_vec(), m.to_xml_string(), m.display().map(|d| d.to_string()));
    format!("write_xml={w:?} document: {} -- {wf}; {back}; {}; {}; {}", text(&doc), same("to_xml_bytes", &a), same("to_xml_string", b.as_bytes()), c.map(|c| same("Display", c.as_bytes())).unwrap_or_default())
}

/// Captured files the decode-pipeline subjects and predecessors use, read once.
struct Files { cms: Vec<(&'static str, Vec<u8>)>, pdu200: Vec<u8>, ta_key: Option<rpki::crypto::PublicKey>, parent_response: Vec<u8>, repo_response: Vec<u8> }

impl Files {
    fn load() -> Files {
        Files {
            cms: ["issue.der", "list.der", "issue-response.der"].into_iter().map(|f| (f, read(&format!("ca/rfc6492/{f}")))).collect(),
            pdu200: read("ca/sigmsg/pdu_200.der"),
            ta_key: rpki::ca::idcert::IdCert::decode(read("ca/sigmsg/cms_ta.cer").as_slice()).ok().map(|c| c.public_key().clone()),
            parent_response: read("ca/rfc8183/krill-0-9-parent-response.xml"),
            repo_response: read("ca/rfc8183/apnic-repository-response.xml"),
        }
    }
}

const FIXED_INSTANTS: [(i32, u32); 4] = [(1990, 1), (2021, 6), (2030, 1), (2200, 1)];

/// Values with a Display impl (and the way back, where there is one): subjects, fmt-failure predecessors
/// and the call_parameters.display space share this list.
struct Shown<'a> { name: String, value: Box<dyn std::fmt::Display + Send + Sync + 'a>, back: Box<dyn Fn(&str) -> bool + Send + Sync + 'a> }

fn shown_values<'a>(fx: &'a Fx, menu: &'a [(&'static str, AnyMsg)]) -> Vec<Shown<'a>> {
    let mut v: Vec<Shown<'a>> = Vec::new();
    macro_rules! fromstr { ($name:expr, $val:expr, $ty:ty) => {{ let val = $val; let twin = val.clone(); v.push(Shown { name: $name, value: Box::new(val), back: Box::new(move |t| <$ty>::from_str(t).ok().is_some_and(|x| x == twin)) }) }} }
    macro_rules! plain { ($name:expr, $val:expr) => {{ let val = $val; let want = guard(|| val.to_string()).unwrap_or_default(); v.push(Shown { name: $name, value: Box::new(val), back: Box::new(move |t| t == want) }) }} }
    for i in [0usize, 3, fx.h_a255, fx.h_slash255] { fromstr!(format!("Handle {:?}", trunc(&fx.handles[i], 30)), fx.handle::<idx::Myself>(i), idx::Handle<idx::Myself>) }
    for i in [fx.svc_plain, fx.svc_special] { fromstr!(format!("ServiceUri {:?}", fx.services[i].as_str()), fx.services[i].clone(), idx::ServiceUri) }
    for s in ["a", "a\"b'c > d", "<&"] { fromstr!(format!("ResourceClassName {s:?}"), prov::ResourceClassName::from(s), prov::ResourceClassName) }
    for s in ["list", "list_response", "issue", "issue_response", "revoke", "revoke_response", "error_response"] {
        if let Ok(p) = prov::PayloadType::from_str(s) { let twin = s.to_string(); v.push(Shown { name: format!("PayloadType {s}"), value: Box::new(p), back: Box::new(move |t| prov::PayloadType::from_str(t).ok().is_some_and(|x| x.as_ref() == twin)) }) }
    }
    for c in CODES { fromstr!(format!("ReportErrorCode {c}"), c.clone(), publ::ReportErrorCode) }
    for i in [2usize, 3] { fromstr!(format!("rrdp::Hash #{i}"), fx.hashes[i % fx.hashes.len()], Hash); fromstr!(format!("KeyIdentifier #{i}"), fx.keys[i], KeyIdentifier) }
    for i in [1usize, 3] { fromstr!(format!("uri::Rsync {:?}", fx.rsyncs[i].as_str()), fx.rsyncs[i].clone(), uri::Rsync); fromstr!(format!("uri::Https {:?}", fx.httpss[i].as_str()), fx.httpss[i].clone(), uri::Https) }
    plain!("Base64 of 4 octets".to_string(), Base64::from_content(b"<&\"'"));
    plain!("RequestResourceLimit none".to_string(), fx.limit(0, 0, 0));
    plain!("RequestResourceLimit as+v4+v6".to_string(), fx.limit(6, 8, 8));
    plain!("RequestResourceLimit v6 only".to_string(), fx.limit(0, 0, 3));
    plain!("IssuanceRequest".to_string(), prov::IssuanceRequest::new(prov::ResourceClassName::from("c&1"), fx.limit(6, 0, 8), fx.csrs[0].1.clone()));
    { let req = prov::RevocationRequest::new(prov::ResourceClassName::from("c'1"), fx.keys[2]); let el: &prov::KeyElement = &req; plain!("KeyElement".to_string(), el.clone()) }
    plain!("NotPerformedResponse 1201".to_string(), prov::NotPerformedResponse::err_1201());
    plain!("NotPerformedResponse 2001".to_string(), prov::NotPerformedResponse::err_2001());
    { let mut er = publ::ErrorReply::for_error(publ::ReportError::with_code(publ::ReportErrorCode::XmlError)); er.add_error(publ::ReportError::with_code(publ::ReportErrorCode::OtherError)); plain!("ErrorReply of 2 reports".to_string(), er) }
    for (name, m) in menu {
        if *name == "idex.parent_response" { continue }   // 2 KB of certificate: same code path as the others
        if let Some(d) = m.display() { let p = m.parser(); v.push(Shown { name: format!("{name} (Display)"), value: d, back: Box::new(move |t| AnyMsg::parse(p, t.as_bytes()).ok().is_some_and(|b| b == *m)) }) }
    }
    if let Err(e) = idx::Handle::<idx::Myself>::from_str("a b") { plain!("InvalidHandle".to_string(), e) }
    if let Err(e) = prov::PayloadType::from_str("nope") { plain!("PayloadTypeError".to_string(), e) }
    v
}

/// The subjects: one evaluation of every oracle family per message type, accepted and rejected.
/// `full`: every time of the alphabet, every captured CMS, every ID certificate (the environment space); otherwise one or two of each (the sequence space runs the subjects tens of thousands of times).
fn history_subjects<'a>(fx: &'a Fx, menu: &'a [(&'static str, AnyMsg)], docs: &'a [Vec<u8>], shown: &'a [Shown<'a>], files: &'a Files, full: bool) -> Vec<(String, Act<'a>)> {
    let mut v: Vec<(String, Act<'a>)> = Vec::new();
    for (name, m) in menu { v.push((format!("round trip of {name}"), Box::new(move || observe_roundtrip(m)))) }
    // rejections at two stages, and a document of another type, per parser
    for p in PARSERS {
        let Some(i) = menu.iter().position(|(_, m)| m.parser() == p) else { continue };
        let other = (i + 7) % menu.len();
        v.push((format!("rejections by the {} parser", p.name()), Box::new(move || {
            let d = &docs[i];
            format!("{:?} / {:?} / {:?} / {:?}", AnyMsg::parse(p, &d[..d.len() / 3]).map(|_| "accepted"), AnyMsg::parse(p, &d[..d.len() * 2 / 3]).map(|_| "accepted"),
                AnyMsg::parse(p, &docs[other]).map(|_| "accepted"), AnyMsg::parse(p, b"<a/>").map(|_| "accepted"))
        })));
    }
    v.push(("Display / to_string of every value type".into(), Box::new(move || shown.iter().map(|s| format!("{}: {}\n", s.name, trunc(&s.value.to_string(), 300))).collect())));
    // times: every not-after of the alphabet written and parsed; offsets and fractions decoded and written again
    v.push(("not-after times written, parsed, respelled".into(), Box::new(move || {
        let mut o = String::new();
        for (i, t) in fx.times.iter().enumerate() {
            if !full && i != 0 && i != 4 { continue }
            let e = prov::ResourceClassEntitlements::new(prov::ResourceClassName::from("t"), ResourceSet::empty(), *t, vec![], prov::SigningCert::new(fx.rsyncs[1].clone(), fx.certs[0].1.clone()));
            let m = prov::Message::list_response(hd("c"), hd("p"), prov::ResourceClassListResponse::new(vec![e]));
            let d = prov_write(&m);
            let s = text(&d);
            let at = s.find("resource_set_notafter").unwrap_or(0);
            o.push_str(&format!("time#{i} {} {} {:?}\n", t.to_rfc3339(), &s[at..(at + 60).min(s.len())], prov_parse(&d).map(|b| b == m)));
            for (from, to) in [("Z\"", "+00:00\""), ("Z\"", "-00:00\""), ("Z\"", ".250Z\"")].into_iter().skip(if full { 0 } else { 2 - i / 4 }).take(if full { 3 } else { 1 }) {
                let respelled = s.replacen(&format!("{}{from}", &t.to_rfc3339()[..19]), &format!("{}{to}", &t.to_rfc3339()[..19]), 1);
                o.push_str(&format!("  {to} -> {:?}\n", prov_parse(respelled.as_bytes()).map(|b| { let w = text(&prov_write(&b)); let at = w.find("resource_set_notafter").unwrap_or(0); w[at..(at + 60).min(w.len())].to_string() })));
            }
        }
        for off in ["2030-01-02T15:04:05+12:00", "2030-01-01T13:04:05-14:00", "2030-01-02T04:04:05+01:00", "2029-12-31T23:30:00-05:30"].into_iter().take(if full { 4 } else { 1 }) {
            let e = prov::ResourceClassEntitlements::new(prov::ResourceClassName::from("t"), ResourceSet::empty(), fx.times[0], vec![], prov::SigningCert::new(fx.rsyncs[1].clone(), fx.certs[0].1.clone()));
            let s = text(&prov_write(&prov::Message::list_response(hd("c"), hd("p"), prov::ResourceClassListResponse::new(vec![e])))).replacen("2030-01-02T03:04:05Z", off, 1);
            o.push_str(&format!("{off} -> {:?}\n", prov_parse(s.as_bytes()).map(|b| match b.payload() { prov::Payload::ListResponse(l) => l.classes()[0].not_after().to_rfc3339(), _ => "?".into() })));
        }
        o
    })));
    v.push(("CMS wrappers decoded and validated".into(), Box::new(move || {
        let mut o = String::new();
        for (f, bytes) in files.cms.iter().skip(if full { 0 } else { 1 }).take(if full { 3 } else { 1 }) {
            match prov::ProvisioningCms::decode(bytes.as_slice()) {
                Err(e) => o.push_str(&format!("{f}: {e}\n")),
                Ok(cms) => {
                    o.push_str(&format!("{f}: fnv{:016x}", fnv64(&prov_write(cms.message()))));
                    if let Some(k) = &files.ta_key {
                        for (y, mo) in FIXED_INSTANTS.into_iter().skip(if full { 0 } else { 1 }).take(if full { 4 } else { 2 }) { o.push_str(&format!(" {y}:{}", cms.validate_at(k, Time::utc(y, mo, 1, 0, 0, 0)).is_ok())) }
                        if full { o.push_str(&format!(" now-agrees:{}", cms.validate(k).is_ok() == cms.validate_at(k, Time::now()).is_ok())) }
                    }
                    o.push('\n');
                }
            }
        }
        if full { match publ::PublicationCms::decode(files.pdu200.as_slice()) {
            Err(e) => o.push_str(&format!("pdu_200: {e}\n")),
            Ok(cms) => {
                if let Some(k) = &files.ta_key { for (y, mo) in FIXED_INSTANTS { o.push_str(&format!(" {y}:{}", cms.validate_at(k, Time::utc(y, mo, 1, 0, 0, 0)).is_ok())) } }
                o.push_str(&format!(" pdu_200: {}\n", text(&pub_write(&cms.into_message()))));
            }
        }}
        o
    })));
    v.push(("identity certificates validated".into(), Box::new(move || {
        let mut o = String::new();
        match idx::ParentResponse::parse(files.parent_response.as_slice()) {
            Err(e) => o.push_str(&format!("parent response: {e}\n")),
            Ok(r) => {
                for (y, mo) in FIXED_INSTANTS.into_iter().skip(if full { 0 } else { 1 }).take(if full { 4 } else { 2 }) { o.push_str(&format!(" {y}:{:?}", r.validate_at(Time::utc(y, mo, 1, 0, 0, 0)).map(|c| fnv64(c.to_captured().as_slice())).map_err(|e| e.to_string()))) }
                if full { o.push_str(&format!(" now-agrees:{}", r.validate().is_ok() == r.validate_at(Time::now()).is_ok())) }
                o.push_str(&format!("\n{}\n", r.to_xml_string()));
            }
        }
        if full { match idx::RepositoryResponse::parse(files.repo_response.as_slice()) {
            Err(e) => o.push_str(&format!("repository response: {e}\n")),
            Ok(r) => o.push_str(&format!(" now-agrees:{} {:?}\n{r}\n", r.validate().is_ok() == idx::validate_idcert_at(r.id_cert(), Time::now()).is_ok(), r.repo_info().resolve("ns", "f.cer").to_string())),
        }}
        for i in (2..fx.idcerts.len()).take(if full { 9 } else { 1 }) { o.push_str(&format!(" {}:{:?}", fx.idcerts[i].0, idx::validate_idcert_at(&Base64::from_content(&fx.idcerts[i].1), Time::utc(2030, 1, 1, 0, 0, 0)).map(|_| "valid").map_err(|e| e.to_string()))) }
        o
    })));
    v.push(("value constructors, accepted and refused".into(), Box::new(|| {
        let mut o = String::new();
        for s in ["a", "a b", "", "A/b_c-9", "\u{e9}"] { o.push_str(&format!("{:?} ", idx::Handle::<idx::Child>::from_str(s).map(|h| h.to_string()).map_err(|e| e.to_string()))) }
        for s in ["https://h/x?a&b", "HTTP://h", "ftp://h", "h", ""] { o.push_str(&format!("{:?} ", idx::ServiceUri::from_str(s).map(|h| h.to_string()).map_err(|e| e.to_string()))) }
        for s in ["xml_error", "XML_ERROR", "nope"] { o.push_str(&format!("{:?} ", publ::ReportErrorCode::from_str(s).map(|h| h.to_string()).map_err(|e| e.to_string()))) }
        for s in ["list", "nope"] { o.push_str(&format!("{:?} ", prov::PayloadType::from_str(s).map(|h| h.to_string()).map_err(|e| e.to_string()))) }
        for s in ["zz", "00"] { o.push_str(&format!("{:?} {:?} ", Hash::from_str(s).map(|h| h.to_string()).map_err(|e| e.to_string()), KeyIdentifier::from_str(s).map(|h| h.to_string()).map_err(|e| e.to_string()))) }
        for s in ["rsync://h/m/a&b", "rsync://h", "https://h/'", "https:/"] { o.push_str(&format!("{:?} {:?} ", uri::Rsync::from_str(s).map(|h| h.to_string()).map_err(|e| e.to_string()), uri::Https::from_str(s).map(|h| h.to_string()).map_err(|e| e.to_string()))) }
        o
    })));
    v
}

/// One predecessor: an operation of the same API family, chosen for its exit path.
#[derive(Clone, Debug)]
enum Pred {
    /// write_xml of menu message `msg` into a sink that fails in way `fault` after `k` octets
    FailWrite { msg: usize, k: usize, fault: Fault },
    /// ... into a `&mut [u8]` of `k` octets (`cursor`: wrapped in an io::Cursor)
    SliceWrite { msg: usize, k: usize, cursor: bool },
    /// Display of value `val` into a fmt::Write that fails after `k` octets
    FmtFail { val: usize, k: usize },
    /// the document of menu message `msg` cut after `k` octets, into parser `parser`
    ParseCut { msg: usize, k: usize, parser: Parser },
    /// the document with octet `k` replaced by `byte`
    ParseSub { msg: usize, k: usize, byte: u8 },
    /// a successful round trip of menu message `msg`
    Roundtrip { msg: usize },
    /// a successful round trip of a message with the same identity as menu message `msg` and other content
    Variant { msg: usize },
    /// entry `0` of the list of other operations (decode pipelines, constructors, larger values)
    Other(usize),
}

struct Hist<'a> { menu: &'a [(&'static str, AnyMsg)], variants: Vec<Option<AnyMsg>>, docs: &'a [Vec<u8>], shown: &'a [Shown<'a>], other: Vec<(String, Act<'a>)> }

impl Pred {
    fn name(&self, h: &Hist) -> String {
        match *self {
            Pred::FailWrite { msg, k, fault } => format!("write_xml of {} into a sink that {} after {k} of {} octets", h.menu[msg].0,
                match fault { Fault::Error => "returns an error", Fault::Zero => "accepts no more (Ok(0))", Fault::Panic => "panics" }, h.docs[msg].len()),
            Pred::SliceWrite { msg, k, cursor } => format!("write_xml of {} into {} of {k} octets (document has {})", h.menu[msg].0, if cursor { "an io::Cursor over a `&mut [u8]`" } else { "a `&mut [u8]`" }, h.docs[msg].len()),
            Pred::FmtFail { val, k } => format!("Display of {} into a fmt::Write that fails after {k} octets", h.shown[val].name),
            Pred::ParseCut { msg, k, parser } => format!("{} parser on the {} document cut after {k} of {} octets", parser.name(), h.menu[msg].0, h.docs[msg].len()),
            Pred::ParseSub { msg, k, byte } => format!("parse of the {} document with octet {k} := {:?}", h.menu[msg].0, byte as char),
            Pred::Roundtrip { msg } => format!("successful round trip of {}", h.menu[msg].0),
            Pred::Variant { msg } => format!("successful round trip (write_xml, to_xml_bytes, to_xml_string) of a message with the identity of {} (same type, handles, URIs, tags) and other content", h.menu[msg].0),
            Pred::Other(i) => h.other[i].0.clone(),
        }
    }
    fn run(&self, h: &Hist) -> String {
        match *self {
            Pred::FailWrite { msg, k, fault } => { let mut sink = FaultySink::new(k, fault); format!("{:?}", h.menu[msg].1.write_xml(&mut sink).map_err(|e| e.to_string())) }
            Pred::SliceWrite { msg, k, cursor } => {
                let mut buf = vec![0u8; k];
                let r = if cursor { h.menu[msg].1.write_xml(&mut io::Cursor::new(&mut buf[..])) } else { let mut sink: &mut [u8] = &mut buf[..]; h.menu[msg].1.write_xml(&mut sink) };
                format!("{:?}", r.map_err(|e| e.to_string()))
            }
            Pred::FmtFail { val, k } => { use std::fmt::Write as _; let mut sink = FaultyFmt { budget: k, got: 0 }; format!("{:?}", write!(sink, "{}", h.shown[val].value)) }
            Pred::ParseCut { msg, k, parser } => format!("{:?}", AnyMsg::parse(parser, &h.docs[msg][..k]).map(|_| "accepted")),
            Pred::ParseSub { msg, k, byte } => { let mut d = h.docs[msg].clone(); d[k] = byte; format!("{:?}", AnyMsg::parse(h.menu[msg].1.parser(), &d).map(|_| "accepted")) }
            Pred::Roundtrip { msg } => { let m = &h.menu[msg].1; format!("{:?}", AnyMsg::parse(m.parser(), &m.to_vec()).map(|b| b == *m)) }
            Pred::Variant { msg } => { let Some(m) = &h.variants[msg] else { return "no variant".into() }; let mut d = Vec::new(); let w = m.write_xml(&mut d).is_ok();
                format!("{w} {} {} {:?}", m.to_vec() == d, m.to_xml_string().as_bytes() == d.as_slice(), AnyMsg::parse(m.parser(), &d).map(|b| b == *m)) }
            Pred::Other(i) => (h.other[i].1)(),
        }
    }
}

/// Offsets inside runs of at least 64 base64 characters, except the first and last 4 of each run and every 61st.
fn thinned_base64(doc: &[u8]) -> HashSet<usize> {
    let mut out = HashSet::new();
    let is64 = |c: u8| c.is_ascii_alphanumeric() || c == b'+' || c == b'/' || c == b'=';
    let mut i = 0;
    while i < doc.len() {
        if !is64(doc[i]) { i += 1; continue }
        let s = i;
        while i < doc.len() && is64(doc[i]) { i += 1 }
        if i - s >= 64 { for k in s + 4..i - 4 { if (k - s) % 61 != 0 { out.insert(k); } } }
    }
    out
}

/// Decode pipelines failing at every stage, constructors refusing, larger and same-identity values.
fn other_predecessors<'a>(ctx: &'a Ctx, fx: &'a Fx, files: &'a Files, signer: &'a rpki_verif::engine::signer::PoolSigner) -> Vec<(String, Act<'a>)> {
    use rpki_verif::engine::signer::Kid;
    let mut v: Vec<(String, Act<'a>)> = Vec::new();
    for (f, bytes) in &files.cms {
        for (what, cut) in [("cut to a third", bytes.len() / 3), ("cut to two thirds", bytes.len() * 2 / 3), ("without its last octet", bytes.len() - 1), ("complete", bytes.len())] {
            v.push((format!("ProvisioningCms::decode of {f} {what}"), Box::new(move || format!("{:?}", prov::ProvisioningCms::decode(&bytes[..cut]).map(|_| "decoded").map_err(|e| e.to_string())))));
        }
        v.push((format!("PublicationCms::decode of {f} (CMS fine, content is another protocol's)"), Box::new(move || format!("{:?}", publ::PublicationCms::decode(bytes.as_slice()).map(|_| "decoded").map_err(|e| e.to_string())))));
        v.push((format!("ProvisioningCms {f}: validate_at with a key that did not sign it, and outside the validity"), Box::new(move || {
            let Ok(cms) = prov::ProvisioningCms::decode(bytes.as_slice()) else { return "Err(decode)".into() };
            format!("{:?} {:?}", cms.validate_at(&signer.public(1), Time::utc(2021, 6, 1, 0, 0, 0)).map_err(|e| e.to_string()),
                files.ta_key.as_ref().map(|k| cms.validate_at(k, Time::utc(1990, 1, 1, 0, 0, 0)).map_err(|e| e.to_string())))
        })));
    }
    v.push(("ProvisioningCms::decode of pdu_200.der (CMS fine, content is another protocol's)".into(), Box::new(move || format!("{:?}", prov::ProvisioningCms::decode(files.pdu200.as_slice()).map(|_| "decoded").map_err(|e| e.to_string())))));
    for cut in [0usize, 1, 100] { v.push((format!("PublicationCms::decode of pdu_200.der cut to {cut} octets"), Box::new(move || format!("{:?}", publ::PublicationCms::decode(&files.pdu200[..cut]).map(|_| "decoded").map_err(|e| e.to_string()))))) }
    // signing fails after the message was assembled; signing succeeds
    for key in [99usize, 0] {
        v.push((format!("ProvisioningCms::create with key #{key} of a pool of 8"), Box::new(move || {
            let m = prov::Message::list(hd("child"), hd("parent"));
            match prov::ProvisioningCms::create(m.clone(), &Kid(key), signer) { Err(e) => format!("Err({e})"), Ok(cms) => format!("{:?}", prov::ProvisioningCms::decode(cms.to_bytes().as_ref()).map(|c| *c.message() == m).map_err(|e| e.to_string())) }
        })));
        v.push((format!("PublicationCms::create with key #{key} of a pool of 8"), Box::new(move || {
            let m = publ::Message::list_reply(publ::ListReply::new(vec![publ::ListElement::new(fx.rsyncs[3].clone(), fx.hashes[2])]));
            match publ::PublicationCms::create(m.clone(), &Kid(key), signer) { Err(e) => format!("Err({e})"), Ok(cms) => format!("{:?}", publ::PublicationCms::decode(cms.to_bytes().as_ref()).map(|c| c.into_message() == m).map_err(|e| e.to_string())) }
        })));
    }
    for i in 0..fx.idcerts.len() { for (y, mo) in [(1990, 1), (2030, 1)] {
        v.push((format!("validate_idcert_at of {} in {y}", fx.idcerts[i].0), Box::new(move || format!("{:?}", idx::validate_idcert_at(&Base64::from_content(&fx.idcerts[i].1), Time::utc(y, mo, 1, 0, 0, 0)).map(|_| "valid").map_err(|e| e.to_string())))));
    }}
    for s in ["a b", "", "\u{e9}", "a+b"] { v.push((format!("Handle::from_str({s:?}) and TryFrom<String>"), Box::new(move || format!("{:?} {:?}", idx::Handle::<idx::Child>::from_str(s).map(|_| "ok").map_err(|e| e.to_string()), idx::Handle::<idx::Parent>::try_from(s.to_string()).map(|_| "ok").map_err(|e| e.to_string()))))) }
    v.push(("Handle::from_str of 256 characters".into(), Box::new(|| format!("{:?}", idx::Handle::<idx::Child>::from_str(&"a".repeat(256)).map(|_| "ok").map_err(|e| e.to_string())))));
    for s in ["ftp://h/x", "h", "", "http:/", "https://"] { v.push((format!("ServiceUri::from_str({s:?})"), Box::new(move || format!("{:?}", idx::ServiceUri::from_str(s).map(|_| "ok").map_err(|e| e.to_string()))))) }
    for s in ["nope", ""] { v.push((format!("ReportErrorCode / PayloadType from_str({s:?})"), Box::new(move || format!("{:?} {:?}", publ::ReportErrorCode::from_str(s).map(|_| "ok").map_err(|e| e.to_string()), prov::PayloadType::from_str(s).map(|_| "ok").map_err(|e| e.to_string()))))) }
    for s in ["zz", "0", "\u{20ac}"] { v.push((format!("Hash / KeyIdentifier / uri from_str({s:?})"), Box::new(move || format!("{:?} {:?} {:?} {:?}", Hash::from_str(s).map(|_| "ok").map_err(|e| e.to_string()), KeyIdentifier::from_str(s).map(|_| "ok").map_err(|e| e.to_string()),
        uri::Rsync::from_str(s).map(|_| "ok").map_err(|e| e.to_string()), uri::Https::from_str(s).map(|_| "ok").map_err(|e| e.to_string()))))) }
    for s in ["A", "QUJ", "QU=D", "QUJD!", "===="] { v.push((format!("base64 decode of {s:?} (util decoder, Base64 Deserialize)"), Box::new(move || format!("{:?} {:?}", rpki::util::base64::Xml.decode(s).map(|_| "ok").map_err(|e| e.to_string()),
        serde_json::from_value::<Base64>(serde_json::Value::String(s.to_string())).map(|b| b.to_bytes().len()).map_err(|e| e.to_string()))))) }
    // larger values, and values with the same identity but other content
    for n in [1usize, 2, 17, 100] {
        v.push((format!("round trip of a list reply with {n} entries (same URIs, other hashes)"), Box::new(move || { let m = publ::Message::list_reply(publ::ListReply::new((0..n).map(|i| publ::ListElement::new(fx.rsyncs[[2, 3, 1][i % 3]].clone(), scale_hash(i))).collect())); format!("{:?}", pub_parse(&pub_write(&m)).map(|b| b == m)) })));
        v.push((format!("round trip of a delta with {n} elements"), Box::new(move || { let mut l = Local::default(); scale_case(ctx, fx, &Sc::Delta(n), &mut l); format!("failed={}", l.failed) })));
    }
    for n in [255usize, 1024] {
        v.push((format!("round trip of a withdraw with a tag of {n} characters"), Box::new(move || { let mut l = Local::default(); scale_case(ctx, fx, &Sc::Text(0, n), &mut l); format!("failed={}", l.failed) })));
        v.push((format!("round trip of a publish with {n} octets of content"), Box::new(move || { let mut l = Local::default(); scale_case(ctx, fx, &Sc::Content(0, n), &mut l); format!("failed={}", l.failed) })));
    }
    v.push(("round trip of a list response with 3 classes of 2 certificates".into(), Box::new(move || {
        let its = [Issued { uri: 3, la: 0, lb: 0, lc: 0, cert: 1 }, Issued { uri: 4, la: 6, lb: 8, lc: 8, cert: 2 }];
        let m = prov::Message::list_response(hd("child"), hd("parent"), prov::ResourceClassListResponse::new((0..3).map(|j| class_of(fx, &Class { name: j, url: 1 + j, asn: j, v4: j, v6: j, time: j, signing: j, issued: its.to_vec() })).collect()));
        format!("{:?}", prov_parse(&prov_write(&m)).map(|b| b == m))
    })));
    v.push(("round trip of prov.list / pub.list_reply / repository_response with the menu's handles and URIs in another letter case".into(), Box::new(move || {
        let m = prov::Message::list(hd("CHILD"), hd("PARENT/1"));
        let up = |u: &str| u.replacen("rsync://", "RSYNC://", 1).replacen("https://", "HTTPS://", 1).replacen("http://", "HTTP://", 1);
        let rs = |i: usize| uri::Rsync::from_str(&up(fx.rsyncs[i].as_str()));
        let (Ok(a), Ok(b), Ok(n), Ok(svc)) = (rs(3), rs(0), uri::Https::from_str(&up(fx.httpss[4].as_str())), idx::ServiceUri::from_str(&up(SVC_PLAIN))) else { return "Err(upper-case scheme refused)".into() };
        let l = publ::Message::list_reply(publ::ListReply::new(vec![publ::ListElement::new(a.clone(), fx.hashes[2]), publ::ListElement::new(b.clone(), fx.hashes[0])]));
        let r = idx::RepositoryResponse::new(Base64::from_content(&fx.idcerts[4].1), hd("ALICE_BOB"), svc, b, Some(n), Some("T'1".into()));
        format!("{:?} {:?} {:?}", prov_parse(&prov_write(&m)).map(|x| x == m), pub_parse(&pub_write(&l)).map(|x| x == l), idx::RepositoryResponse::parse(r.to_xml_vec().as_slice()).map(|x| x == r).map_err(idx_err))
    })));
    v.push(("round trip of a revoke with the same class name and sender, another key and recipient".into(), Box::new(move || {
        let m = prov::Message::revoke(hd("child"), hd("other"), prov::RevocationRequest::new(prov::ResourceClassName::from("a\"b'c > d"), fx.keys[0]));
        format!("{:?}", prov_parse(&prov_write(&m)).map(|b| b == m))
    })));
    v
}

/// Failures found in a parallel phase, reported afterwards in key order (the 200 smallest keys with their
/// witnesses, the others counted), so that the output does not depend on thread arrival.
struct Ordered(Mutex<(BTreeMap<u64, (String, String, String)>, BTreeMap<String, u64>)>);

impl Ordered {
    fn new() -> Self { Ordered(Mutex::new((BTreeMap::new(), BTreeMap::new()))) }
    fn push(&self, key: u64, oracle: &str, wit: String, detail: String) {
        let mut g = self.0.lock().unwrap();
        let mut key = key;
        while g.0.contains_key(&key) { key += 1 }
        g.0.insert(key, (oracle.to_string(), wit, detail));
        if g.0.len() > 200 { if let Some((_, (o, _, _))) = g.0.pop_last() { *g.1.entry(o).or_insert(0) += 1 } }
    }
    fn check(&self, key: u64, oracle: &str, wit: impl FnOnce() -> String, f: impl FnOnce() -> Result<(), String>) -> bool {
        match guard(f) { Ok(Ok(())) => true, Ok(Err(d)) => { self.push(key, oracle, wit(), d); false } Err(p) => { self.push(key, oracle, wit(), p); false } }
    }
    fn flush(&self, ctx: &Ctx, sp: &Space) {
        let mut g = self.0.lock().unwrap();
        if !g.0.is_empty() { sp.outcomes_n("oracle-violated", g.0.len() as u64 + g.1.values().sum::<u64>()) }
        for (_, (o, w, d)) in std::mem::take(&mut g.0) { ctx.fail(&o, w, d) }
        for (o, n) in std::mem::take(&mut g.1) { for _ in 0..n { ctx.fail(&o, "(further failures of this oracle, not kept)", "") } }
    }
}

/// What the sequence spaces share: built once.
struct Shared<'a> { fx: &'a Fx, menu: Vec<(&'static str, AnyMsg)>, docs: Vec<Vec<u8>>, files: Files }

impl<'a> Shared<'a> {
    fn load(fx: &'a Fx) -> Self {
        let menu = message_menu(fx);
        let docs = menu.iter().map(|(_, m)| on_fresh_thread(|| guard(|| m.to_vec()).unwrap_or_default())).collect();
        Shared { fx, menu, docs, files: Files::load() }
    }
}

fn history_predecessors(h: &Hist, thorough: bool) -> Vec<Pred> {
    let mut v = Vec::new();
    for (msg, (_, m)) in h.menu.iter().enumerate() {
        let len = h.docs[msg].len();
        let thin = if thorough { HashSet::new() } else { thinned_base64(&h.docs[msg]) };
        let own = m.parser();
        let next = PARSERS[(PARSERS.iter().position(|p| *p == own).unwrap_or(0) + 1) % PARSERS.len()];
        for k in 0..=len + 1 {
            v.push(Pred::FailWrite { msg, k, fault: Fault::Error });
            if thin.contains(&k) { continue }
            v.push(Pred::FailWrite { msg, k, fault: Fault::Panic });
            if !m.uses_encoder_writer() {
                if thorough || k % 3 == 0 { v.push(Pred::FailWrite { msg, k, fault: Fault::Zero }) }
                v.push(Pred::SliceWrite { msg, k, cursor: false });
                if thorough { v.push(Pred::SliceWrite { msg, k, cursor: true }) }
            }
        }
        for k in 0..len {
            if thin.contains(&k) { continue }
            v.push(Pred::ParseCut { msg, k, parser: own });
            if k % 5 == 0 { v.push(Pred::ParseCut { msg, k, parser: next }) }
            match k % 7 { 0 => v.push(Pred::ParseSub { msg, k, byte: b'<' }), 1 => v.push(Pred::ParseSub { msg, k, byte: b'B' }), 3 => v.push(Pred::ParseSub { msg, k, byte: b'&' }), 5 => v.push(Pred::ParseSub { msg, k, byte: b'"' }), _ => {} }
        }
        v.push(Pred::Roundtrip { msg });
        if h.variants[msg].is_some() { v.push(Pred::Variant { msg }) }
    }
    for (val, s) in h.shown.iter().enumerate() {
        let len = guard(|| s.value.to_string().len()).unwrap_or(0);
        for k in 0..=len { if len <= 700 || k <= 300 || k + 3 >= len { v.push(Pred::FmtFail { val, k }) } }
    }
    for i in 0..h.other.len() { v.push(Pred::Other(i)) }
    v
}

fn space_history(ctx: &Ctx, sh: &Shared) {
    let thorough = ctx.tier.is_thorough();
    let sp = ctx.space("history.independent",
        "sequences on one dedicated OS thread (std::thread, fresh thread-locals): one predecessor, then every subject once (the first subject rotates with the predecessor's number, so that every subject is met first after every kind of predecessor, and the predecessors that are not swept over k are run once per subject as the first; thorough: then every subject again in reverse order); each observation (document written by write_xml, well-formedness verdict, parse result, equality, agreement of to_xml_bytes / to_xml_string / Display with it; all as text) must equal the one the same subject gives when it is the first thing a new thread does. Subjects: the round trip of one message of every type of the three protocols (24 messages), rejections by each of the 6 parsers, Display of every value type, not-after times, CMS wrappers, identity-certificate validation, value constructors. Predecessors, for EVERY message of the menu: write_xml into a sink that returns an error after k octets for EVERY k up to the document length + 1; into a sink that panics after k octets, into a `&mut [u8]` of k octets and into a sink that answers Ok(0) after k octets for every k (quick: for these three, and for the cut documents, in the interior of base64 runs of 64 and more characters, which reach the sink in one or a few writes, every 61st k only, and the Ok(0) sink every 3rd k; thorough: every k; the Ok(0) kinds not for documents written through base64's EncoderWriter, which retries such a sink for ever); the document cut after every k into its parser (every 5th into another parser), '<' 'B' '&' '\"' substituted at every 7th offset (a letter mostly gives another valid message of the same length); a successful round trip of the message and of a message with the same identity (type, handles, URIs, tags) and other content; Display of every value into a fmt::Write failing after every k; CMS decode / validate / create failing at every stage; constructors refusing; larger and same-identity values. thorough: additionally all ordered pairs of a menu of predecessors taken at a prime stride. non-trivial = sequences whose predecessor took an error or panic path");
    let shown = shown_values(sh.fx, &sh.menu);
    let signer = rpki_verif::engine::signer::PoolSigner::load();
    let h = Hist { menu: &sh.menu, variants: sh.menu.iter().map(|(_, m)| guard(|| variant(sh.fx, m)).ok().flatten()).collect(), docs: &sh.docs, shown: &shown, other: other_predecessors(ctx, sh.fx, &sh.files, &signer) };
    let subjects = history_subjects(sh.fx, &sh.menu, &sh.docs, &shown, &sh.files, false);
    let ns = subjects.len();
    let baseline: Vec<String> = subjects.iter().map(|(_, f)| on_fresh_thread(|| observe(f.as_ref()))).collect();
    if std::env::var_os("C11_TIMING").is_some() { for (n, f) in &subjects { let t = std::time::Instant::now(); for _ in 0..20 { observe(f.as_ref()); } eprintln!("[subject] {:>8.1} us  {n}", t.elapsed().as_secs_f64() * 1e6 / 20.0) } }
    let fails = Ordered::new();
    // the baseline itself must be reproducible, or nothing can be compared with it
    for (i, ((name, f), b)) in subjects.iter().zip(&baseline).enumerate() {
        let again = on_fresh_thread(|| observe(f.as_ref()));
        if again != *b { fails.push(i as u64, "C11.history.independent", format!("subject {name:?} as the first operation of two new threads"), format!("observed {} -- and {}", trunc(&first_difference(&again, b), 300), trunc(&first_difference(b, &again), 300))) }
    }
    let run_sequence = |order: u64, preds: &[&Pred]| {
        let (pre_obs, obs): (Vec<String>, Vec<(usize, bool, String)>) = on_fresh_thread(|| {
            let pre: Vec<String> = preds.iter().map(|p| observe(&|| p.run(&h))).collect();
            let mut out = Vec::with_capacity(2 * ns);
            let s0 = order as usize % ns;
            for j in 0..ns { let i = (s0 + j) % ns; out.push((i, false, observe(subjects[i].1.as_ref()))) }
            if thorough { for j in (0..ns).rev() { let i = (s0 + j) % ns; out.push((i, true, observe(subjects[i].1.as_ref()))) } }
            (pre, out)
        });
        let failed_path = pre_obs.iter().any(|o| o.contains("Err(") || o.starts_with("PANIC"));
        sp.evals(obs.len() as u64);
        if failed_path { sp.nontrivial(1); sp.outcome("after-a-failed-operation") } else { sp.outcome("after-a-successful-operation") }
        let sequence: Vec<usize> = obs.iter().map(|o| o.0).collect();
        for (pos, (i, rev, o)) in obs.into_iter().enumerate() {
            if o != baseline[i] {
                let names: Vec<String> = preds.iter().map(|p| p.name(&h)).collect();
                fails.push((order + 1) << 12 | pos as u64, "C11.history.independent",
                    format!("after [{}]: {}{}", names.join("; then "), subjects[i].0, if pos == 0 { " (first subject)".to_string() } else { format!(" ({}directly after the subject {:?})", if rev { "second, reverse pass, " } else { "" }, subjects[sequence[pos - 1]].0) }),
                    format!("observed {} -- as the first operation of a new thread the same subject gives {}", trunc(&first_difference(&o, &baseline[i]), 400), trunc(&first_difference(&baseline[i], &o), 400)));
            }
        }
    };
    let preds = history_predecessors(&h, thorough);
    preds.par_iter().enumerate().for_each(|(pi, p)| run_sequence(pi as u64, &[p]));
    // the predecessors that are not part of a sweep over k: once with every subject as the first one after it
    let single: Vec<&Pred> = preds.iter().filter(|p| matches!(p, Pred::Roundtrip { .. } | Pred::Variant { .. } | Pred::Other(_))).collect();
    (0..single.len() * ns).into_par_iter().for_each(|i| run_sequence((1 << 30) | i as u64, &[single[i / ns]]));
    let mut bound = format!("{} predecessors x {} subjects{}; {} one-off predecessors x every subject first", preds.len(), ns, if thorough { " x 2 passes" } else { "" }, single.len());
    if thorough {
        let stride = [1usize, 211, 307, 401, 503, 601, 701, 809, 907, 1009, 1511, 2003].into_iter().find(|s| preds.len() / s <= 260).unwrap_or(2003);
        let menu: Vec<&Pred> = preds.iter().step_by(stride).collect();
        let n = menu.len();
        (0..n * n).into_par_iter().for_each(|ij| run_sequence((1 << 40) | ij as u64, &[menu[ij / n], menu[ij % n]]));
        bound.push_str(&format!("; {} ordered pairs of {n} predecessors (every {stride}th)", n * n));
    }
    fails.flush(ctx, &sp);
    let mut kinds: BTreeMap<&'static str, u64> = BTreeMap::new();
    for p in &preds { *kinds.entry(match p { Pred::FailWrite { fault: Fault::Error, .. } => "write into a sink returning an error after k octets", Pred::FailWrite { fault: Fault::Zero, .. } => "write into a sink answering Ok(0) after k octets",
        Pred::FailWrite { fault: Fault::Panic, .. } => "write into a sink panicking after k octets", Pred::SliceWrite { .. } => "write into a `&mut [u8]` of k octets", Pred::FmtFail { .. } => "Display into a fmt::Write failing after k octets",
        Pred::ParseCut { .. } => "parse of a document cut after k octets", Pred::ParseSub { .. } => "parse of a document with one octet substituted", Pred::Roundtrip { .. } => "successful round trip", Pred::Variant { .. } => "successful round trip of a message with the same identity and other content", Pred::Other(_) => "decode pipelines, constructors, larger values" }).or_insert(0) += 1 }
    sp.set("predecessors_by_kind", serde_json::json!(kinds));
    sp.set("subjects", serde_json::json!(subjects.iter().map(|s| s.0.clone()).collect::<Vec<_>>()));
    sp.set("menu_documents", serde_json::json!(sh.menu.iter().zip(&sh.docs).map(|((n, _), d)| format!("{n}: {} octets", d.len())).collect::<Vec<_>>()));
    sp.sample_str(|| preds[preds.len() / 3].name(&h));
    sp.sample_str(|| preds[preds.len() * 2 / 3].name(&h));
    sp.done(true, &bound);
}

//--- environment

/// All subject observations, one group per subject, for comparison across processes.
fn subject_dump(sh: &Shared) -> String {
    let shown = shown_values(sh.fx, &sh.menu);
    history_subjects(sh.fx, &sh.menu, &sh.docs, &shown, &sh.files, true).iter().map(|(n, f)| format!("## {n}\n{}\n", on_fresh_thread(|| observe(f.as_ref())))).collect()
}

fn space_environment(ctx: &Ctx, sh: &Shared) {
    let sp = ctx.space("environment.timezone",
        "the history subjects (every message type written and parsed, the time-carrying provisioning messages with every not-after of the alphabet and with offsets / fractions respelled, CMS and identity-certificate validation at fixed instants and against the clock) evaluated in child processes of this binary started with TZ=UTC0, TZ=XXX+12 (west) and TZ=XXX-14 (east): every observation equals the one made in this process; non-trivial = the two non-UTC zones");
    let here = subject_dump(sh);
    let n = here.matches("\n## ").count() as u64 + 1;
    let exe = match std::env::current_exe() { Ok(e) => e, Err(e) => { ctx.machinery_error(format!("current_exe: {e}")); sp.done(false, "not run"); return } };
    for (i, tz) in ["UTC0", "XXX+12", "XXX-14"].into_iter().enumerate() {
        sp.evals(n);
        if i > 0 { sp.nontrivial(1) }
        sp.outcome(if i == 0 { "utc" } else { "shifted-zone" });
        match std::process::Command::new(&exe).arg("--c11-subject-dump").arg(ctx.tier.name()).env("TZ", tz).output() {
            Err(e) => ctx.machinery_error(format!("cannot start the child process for TZ={tz}: {e}")),
            Ok(out) => {
                let there = String::from_utf8_lossy(&out.stdout).into_owned();
                if !out.status.success() && there.is_empty() { ctx.machinery_error(format!("child process for TZ={tz} failed: {}", String::from_utf8_lossy(&out.stderr))); continue }
                if there != here {
                    let a: Vec<&str> = here.split("## ").collect(); let b: Vec<&str> = there.split("## ").collect();
                    let k = a.iter().zip(&b).position(|(x, y)| x != y).unwrap_or(0);
                    sp.outcome("oracle-violated");
                    ctx.fail("C11.environment.timezone", format!("TZ={tz} subject {:?}", a.get(k).and_then(|x| x.lines().next()).unwrap_or("?")),
                        format!("observed {} -- with the parent's environment {}", trunc(&first_difference(b.get(k).unwrap_or(&""), a.get(k).unwrap_or(&"")), 300), trunc(&first_difference(a.get(k).unwrap_or(&""), b.get(k).unwrap_or(&"")), 300)));
                }
            }
        }
    }
    sp.sample_str(|| "TZ=XXX+12: all subjects".into());
    sp.done(true, &format!("3 zones x {n} subjects"));
}

//--- process-level history: the first operation of a process
//
// State that is set once per process (a table built lazily in a static, a OnceLock filled by whichever caller
// comes first) cannot be seen from inside this process: by the time a sequence space runs, the first caller of
// every static has long been decided, and fresh threads share statics. So child processes of this binary each
// perform ONE operation of the public API as the very first XML operation of their process (only value
// constructors and DER decoding come before it) and then evaluate the subject set.

use rpki::xml::decode as xd;
use rpki::xml::encode as xe;

/// The six ways the xml::encode API puts text into a document.
#[derive(Clone, Copy, Debug, PartialEq, Eq)]
enum XMode { Pcdata, Attr, EscapedPcdata, EscapedAttr, Raw, Base64 }
const XMODES: [XMode; 6] = [XMode::Pcdata, XMode::Attr, XMode::EscapedPcdata, XMode::EscapedAttr, XMode::Raw, XMode::Base64];

impl XMode {
    fn name(self) -> &'static str {
        match self { XMode::Pcdata => "Content::pcdata", XMode::Attr => "Element::attr", XMode::EscapedPcdata => "Text::write_escaped(TextEscape::Pcdata)",
            XMode::EscapedAttr => "Text::write_escaped(TextEscape::Attr)", XMode::Raw => "Content::raw", XMode::Base64 => "Content::base64" }
    }
}

/// The three implementations of xml::encode::Text.
#[derive(Clone, Copy, Debug)]
enum XForm { Str, Octets, Display }
const XFORMS: [XForm; 3] = [XForm::Str, XForm::Octets, XForm::Display];

/// A Display value that hands its (ASCII) text to the formatter in two pieces.
struct Pieces<'a>(&'a str);
impl std::fmt::Display for Pieces<'_> {
    fn fmt(&self, f: &mut std::fmt::Formatter) -> std::fmt::Result { let k = self.0.len() / 2; f.write_str(&self.0[..k])?; f.write_str(&self.0[k..]) }
}

const XTEXTS: [&str; 3] = ["", "plain text", "a<b>c&d\"e'f"];

/// One small document written through rpki::xml::encode with `txt` placed by `mode`; in the modes other than Attr no
/// attribute is written before the text. Observation: the result, the verdict of this file's well-formedness checker and
/// whether the text read back (references resolved by this file) is the text written -- not the octets: PCDATA may or may
/// not escape '>' and the quotes, both spellings are right.
fn xml_encode_op(mode: XMode, form: XForm, txt: &str, indent: Option<&'static str>, budget: Option<usize>) -> String {
    const ROOT: xd::Name<'static, 'static> = xd::Name::unqualified(b"root");
    const INNER: xd::Name<'static, 'static> = xd::Name::unqualified(b"inner");
    const LAST: xd::Name<'static, 'static> = xd::Name::qualified(b"p", b"last");
    use std::io::Write as _;
    let mut sink = FaultySink::new(budget.unwrap_or(usize::MAX), Fault::Error);
    macro_rules! with_text { ($t:ident => $e:expr) => { match form {
        XForm::Str => { let $t: &str = txt; $e } XForm::Octets => { let $t: &[u8] = txt.as_bytes(); $e } XForm::Display => { let d = Pieces(txt); let $t = &d; $e } } } }
    let res: Result<(), io::Error> = (|| {
        match mode {
            XMode::EscapedPcdata => { sink.write_all(b"<root>")?; with_text!(t => xe::Text::write_escaped(t, xe::TextEscape::Pcdata, &mut sink))?; sink.write_all(b"</root>") }
            XMode::EscapedAttr => { sink.write_all(b"<root a=\"")?; with_text!(t => xe::Text::write_escaped(t, xe::TextEscape::Attr, &mut sink))?; sink.write_all(b"\"/>") }
            _ => {
                let mut w = xe::Writer::new(&mut sink);
                if let Some(i) = indent { w.set_indent(i) }
                if mode == XMode::Attr {
                    with_text!(t => w.element(ROOT)?.attr("a", t)?.attr_opt("b", None::<&str>)?.attr_opt("c", Some("1"))?.content(|c| { c.element(INNER)?; Ok(()) }).map(|_| ()))?;
                }
                else {
                    w.element(ROOT)?.content(|c| {
                        c.element(INNER)?.content(|c| c.element(INNER)?.content(|c| with_text!(t => match mode { XMode::Pcdata => c.pcdata(t), XMode::Raw => c.raw(t), _ => c.base64(t) })).map(|_| ()))?;
                        c.element_opt(None::<&u8>, INNER, |_, _| Ok(()))?;
                        c.element_opt(Some(&1u8), LAST, |n, e| e.attr("xmlns:p", "urn:p")?.attr("n", n).map(|_| ()))
                    })?;
                }
                w.done()
            }
        }
    })();
    let doc = text(&sink.got);
    // a sink that fails: the result and how much it took (the cut document would show the spelling of the references)
    if budget.is_some() { return format!("{:?}; the sink took {} octets", res.map_err(|e| e.to_string()), sink.got.len()) }
    let verdict = match wf_check(&sink.got) {
        Err(e) => format!("not well-formed ({e}): {doc}"),
        Ok(sp) => {
            let back = match mode {
                XMode::Attr | XMode::EscapedAttr => sp.values.first().map(|&(_, a, b)| unescape_xml(&doc[a..b])),
                XMode::Pcdata | XMode::EscapedPcdata => Some(sp.texts.first().map(|&(a, b)| unescape_xml(doc[a..b].trim())).unwrap_or_default()),
                XMode::Raw | XMode::Base64 => None,
            };
            match back { Some(b) if b == txt.trim() => "well-formed, the text reads back as written".to_string(), Some(b) => format!("well-formed, THE TEXT READS BACK AS {b:?}: {doc}"), None => format!("well-formed: {doc}") }
        }
    };
    format!("{:?}; {verdict}", res.map_err(|e| e.to_string()))
}

/// Any document of depth two (a root with attributes, children with attributes and optional text) read through
/// rpki::xml::decode: start / start_with_limit, attributes, ascii_into, into_ascii_bytes, take_opt_element,
/// take_opt_final_text, to_utf8, to_ascii, base64_decode, take_end, end.
fn xml_walk(doc: &[u8], limit: Option<u64>) -> String {
    let out = std::cell::RefCell::new(String::new());
    let show = |e: xd::Element| -> Result<(), xd::Error> {
        let mut o = out.borrow_mut();
        o.push_str(&format!(" <{:?}", e.name()));
        e.attributes(|k, v| {
            let b = v.clone().into_ascii_bytes().map_err(|e| e.to_string());
            let s = v.ascii_into::<String>().map_err(|e| e.to_string());
            o.push_str(&format!(" {}={s:?}/{b:?}", text(k)));
            Ok(())
        })
    };
    let mut r = xd::Reader::new(doc);
    let res: Result<(), xd::Error> = (|| {
        let mut root = match limit { Some(l) => r.start_with_limit(&show, l)?, None => r.start(&show)? };
        while let Some(mut c) = root.take_opt_element(&mut r, &show)? {
            let t = c.take_opt_final_text(&mut r, |t| Ok::<_, xd::Error>(t.map(|t| format!("utf8={:?} ascii={:?} base64={:?}", t.to_utf8().map_err(|e| e.to_string()),
                t.to_ascii().map_err(|e| e.to_string()), t.base64_decode().map(|v| hex(&v)).map_err(|e| e.to_string())))))?;
            out.borrow_mut().push_str(&format!(" text: {t:?}"));
        }
        root.take_end(&mut r)?;
        r.end()
    })();
    format!("{} => {:?}", out.borrow(), res.map_err(|e| e.to_string()))
}

/// `<a ..><b ..>text</b><c>optional text</c></a>` read through the other half of rpki::xml::decode: take_element,
/// take_element_with_limit, take_text_with_limit, skip_opt_text, take_opt_element_with_limit.
fn xml_walk_fixed(doc: &[u8]) -> String {
    let out = std::cell::RefCell::new(String::new());
    let show = |e: xd::Element| -> Result<(), xd::Error> {
        let mut o = out.borrow_mut();
        o.push_str(&format!(" <{:?}", e.name()));
        e.attributes(|k, v| { o.push_str(&format!(" {}={:?}", text(k), v.ascii_into::<String>().map_err(|e| e.to_string()))); Ok(()) })
    };
    let mut r = xd::Reader::new(doc);
    let res: Result<(), xd::Error> = (|| {
        let mut root = r.start(&show)?;
        let mut b = root.take_element_with_limit(&mut r, &show, 10_000)?;
        let t = b.take_text_with_limit(&mut r, |t| Ok::<_, xd::Error>(t.to_ascii()?.into_owned()), 10_000)?;
        out.borrow_mut().push_str(&format!(" text: {t:?}"));
        b.take_end(&mut r)?;
        let mut c = root.take_element(&mut r, &show)?;
        c.skip_opt_text(&mut r)?;
        let none = root.take_opt_element_with_limit(&mut r, &show, 10_000)?.is_none();
        out.borrow_mut().push_str(&format!(" no further element: {none}"));
        root.take_end(&mut r)?;
        r.end()
    })();
    format!("{} => {:?}", out.borrow(), res.map_err(|e| e.to_string()))
}

/// Captured documents of every message kind: the files of test-data/ca and the XML inside the captured CMS wrappers
/// (taken out through the DER decoder: no XML is read here).
fn captured_documents() -> Vec<(String, Parser, Vec<u8>)> {
    let mut v = Vec::new();
    for f in ["not-performed-response.xml", "revoke-req.xml", "revoke-response.xml"] { v.push((format!("rfc6492/{f}"), Parser::Prov, read(&format!("ca/rfc6492/{f}")))) }
    for f in ["issue.der", "list.der", "issue-response.der", "list-response.ber", "afrinic-response.der", "apnic-response.der", "apnic-testbed-response.der"] {
        if let Ok(m) = SignedMessage::decode(read(&format!("ca/rfc6492/{f}")).as_slice(), false) { v.push((format!("the XML inside rfc6492/{f}"), Parser::Prov, m.content().to_bytes().to_vec())) }
    }
    for f in ["error-reply.xml", "list-reply-empty-short.xml", "list-reply-empty.xml", "list-reply-single.xml", "list-reply.xml", "list.xml", "publish-empty-short.xml", "publish-empty.xml", "publish-multi.xml", "publish-single.xml", "success-reply.xml"] {
        v.push((format!("rfc8181/{f}"), Parser::Pub, read(&format!("ca/rfc8181/{f}"))))
    }
    if let Ok(m) = SignedMessage::decode(read("ca/sigmsg/pdu_200.der").as_slice(), false) { v.push(("the XML inside sigmsg/pdu_200.der".into(), Parser::Pub, m.content().to_bytes().to_vec())) }
    for (f, p) in [("rpkid-child-id.xml", Parser::Child), ("afrinic-parent-response.xml", Parser::Parent), ("apnic-parent-response.xml", Parser::Parent), ("krill-0-9-parent-response.xml", Parser::Parent),
        ("rpkid-parent-response-offer.xml", Parser::Parent), ("rpkid-parent-response-referral.xml", Parser::Parent), ("rpkid-publisher-request.xml", Parser::Publisher),
        ("apnic-repository-response.xml", Parser::Repo), ("krill-0-9-repository-response.xml", Parser::Repo)] {
        v.push((format!("rfc8183/{f}"), p, read(&format!("ca/rfc8183/{f}"))))
    }
    v
}

const WALK_DOCS: [(&str, &str); 9] = [
    ("declaration, comments, namespace, every predefined reference, wrapped base64", "<?xml version=\"1.0\" encoding=\"UTF-8\"?>\n<!-- c --><r xmlns=\"urn:x\" a=\"p&amp;q &lt;&gt;&quot;&apos;&#65;\" b=\"\">\n  <e k=\"v\">t &amp; u &lt; v &gt; w</e><!-- c -->\n  <f/>\n  <g>QUJD\n REVG</g>\n</r>\n"),
    ("no reference at all", "<r a=\"1\"><e>text</e><g>QQ==</g></r>"),
    ("cut inside the second child", "<r a=\"p&amp;q\"><e k=\"v\">t</e><g>QU"),
    ("an unknown reference in an attribute and in text", "<r a=\"&nope;\"><e>&nope;</e></r>"),
    ("non-ASCII attribute and text", "<r a=\"\u{e9}\"><e>\u{e9}</e></r>"),
    ("prefixed names", "<x:r xmlns:x=\"urn:x\" a=\"1\"><x:e>t</x:e><y:e xmlns:y=\"urn:y\"/></x:r>"),
    ("an undeclared prefix", "<y:r a=\"1\"/>"),
    ("an empty root", "<r/>"),
    ("no element", "text only"),
];

/// The menu of first operations: every kind of public operation of rpki::xml and of the three protocols, successful and failing.
/// Built from fixtures that were made without reading or writing XML (`Fx::load_opt(ctx, false)`, `message_menu_built`).
fn first_operations<'a>(fx: &'a Fx, menu: &'a [(&'static str, AnyMsg)], files: &'a Files, captured: &'a [(String, Parser, Vec<u8>)]) -> Vec<(&'static str, String, Act<'a>)> {
    use rpki_verif::engine::signer::{Kid, PoolSigner};
    let mut v: Vec<(&'static str, String, Act<'a>)> = Vec::new();
    v.push(("nothing", "no operation".into(), Box::new(String::new)));
    // rpki::xml::encode
    for mode in XMODES { for form in XFORMS { for txt in XTEXTS {
        v.push(("xml::encode", format!("xml::encode: a document with {txt:?} ({form:?}) placed by {}", mode.name()), Box::new(move || xml_encode_op(mode, form, txt, None, None))));
    }}}
    for mode in XMODES { for budget in [9usize, 14] {
        v.push(("xml::encode into a failing sink", format!("xml::encode: a document with {:?} (Str) placed by {} into a sink that returns an error after {budget} octets", XTEXTS[2], mode.name()), Box::new(move || xml_encode_op(mode, XForm::Str, XTEXTS[2], None, Some(budget)))));
    }}
    for indent in ["", "\t"] { for mode in [XMode::Pcdata, XMode::Attr] {
        v.push(("xml::encode", format!("xml::encode: set_indent({indent:?}), then a document with {:?} (Display) placed by {}", XTEXTS[2], mode.name()), Box::new(move || xml_encode_op(mode, XForm::Display, XTEXTS[2], Some(indent), None))));
    }}
    // rpki::xml::decode
    for (what, doc) in WALK_DOCS { v.push(("xml::decode", format!("xml::decode: a document read element by element ({what})"), Box::new(move || xml_walk(doc.as_bytes(), None)))) }
    for limit in [1u64, 30, 100_000] { v.push(("xml::decode", format!("xml::decode: the first document read with start_with_limit({limit})"), Box::new(move || xml_walk(WALK_DOCS[0].1.as_bytes(), Some(limit))))) }
    for doc in ["<a x=\"1&amp;2\"><b y=\"&lt;\">text &amp; more</b><c>opt</c></a>", "<a><b>text</b><c/></a>", "<a><b><d/></b><c/></a>", "<a><b>text</b><c/><e/></a>"] {
        v.push(("xml::decode", format!("xml::decode: {doc:?} read with take_element / take_text / skip_opt_text and the _with_limit variants"), Box::new(move || xml_walk_fixed(doc.as_bytes()))));
    }
    // every message the constructors make: written by each entry point, and into a sink that fails
    for (name, m) in menu {
        v.push(("message written", format!("write_xml of {name} into a Vec"), Box::new(move || { let mut d = Vec::new(); let r = m.write_xml(&mut d).map_err(|e| e.to_string());
            format!("{r:?} {} -- {}", text(&d), match wf_check(&d) { Ok(_) => "well-formed".to_string(), Err(e) => format!("NOT WELL-FORMED ({e})") }) })));
        v.push(("message written", format!("to_xml_string of {name}"), Box::new(move || m.to_xml_string())));
        if m.display().is_some() { v.push(("message written", format!("Display of {name}"), Box::new(move || m.display().map(|d| d.to_string()).unwrap_or_default()))) }
        v.push(("message written into a failing sink", format!("write_xml of {name} into a sink that returns an error after 40 octets"), Box::new(move || { let mut sink = FaultySink::new(40, Fault::Error);
            format!("{:?} {}", m.write_xml(&mut sink).map_err(|e| e.to_string()), text(&sink.got)) })));
    }
    // every kind of message parsed: captured documents, documents with references; rejections at two stages
    let parsed = |p: Parser, d: &[u8]| format!("{:?}", AnyMsg::parse(p, d).map(|m| format!("{m:?} -- written again: {}", text(&m.to_vec()))));
    for (name, p, doc) in captured { v.push(("message parsed", format!("{} parser on {name}", p.name()), Box::new(move || parsed(*p, doc)))) }
    v.push(("message parsed", "publication parser on an error reply with references and a failed_pdu".into(), Box::new(move || parsed(Parser::Pub,
        format!("<msg xmlns=\"{PUB_NS}\" version=\"4\" type=\"reply\"><report_error error_code=\"no_object_present\" tag=\"t&amp;1\"><error_text>text with \"quotes\" and 'apostrophes' ></error_text><failed_pdu><publish tag=\"x&quot;\" uri=\"rsync://h/m/a&amp;b\" hash=\"{}\">QUJD</publish></failed_pdu></report_error></msg>", fx.hashes[2]).as_bytes()))));
    v.push(("message parsed", "child_request parser on a request with a tag full of references".into(), Box::new(move || parsed(Parser::Child, CHILD_WITH_TAG.as_bytes()))));
    for (i, p) in PARSERS.into_iter().enumerate() {
        let Some((name, _, doc)) = captured.iter().find(|c| c.1 == p) else { continue };
        let next = PARSERS[(i + 1) % PARSERS.len()];
        v.push(("message rejected", format!("{} parser on {name} cut to half", p.name()), Box::new(move || parsed(p, &doc[..doc.len() / 2]))));
        v.push(("message rejected", format!("{} parser on {name} (another type's document)", next.name()), Box::new(move || parsed(next, doc))));
    }
    v.push(("message rejected", "provisioning parser on no octets at all".into(), Box::new(move || parsed(Parser::Prov, b""))));
    v.push(("message rejected", "publication parser on \"<a/>\"".into(), Box::new(move || parsed(Parser::Pub, b"<a/>"))));
    // through the CMS wrappers
    for (f, bytes) in &files.cms {
        v.push(("CMS wrapper", format!("ProvisioningCms::decode of {f}, validate_at"), Box::new(move || match prov::ProvisioningCms::decode(bytes.as_slice()) { Err(e) => format!("Err({e})"),
            Ok(cms) => format!("{:?} {:?}", files.ta_key.as_ref().map(|k| cms.validate_at(k, Time::utc(2021, 6, 1, 0, 0, 0)).map_err(|e| e.to_string())), cms.message()) })));
    }
    v.push(("CMS wrapper", "PublicationCms::decode of pdu_200.der".into(), Box::new(move || format!("{:?}", publ::PublicationCms::decode(files.pdu200.as_slice()).map(|c| c.into_message()).map_err(|e| e.to_string())))));
    v.push(("CMS wrapper", "ProvisioningCms::decode of pdu_200.der (another protocol's content)".into(), Box::new(move || format!("{:?}", prov::ProvisioningCms::decode(files.pdu200.as_slice()).map(|c| format!("{:?}", c.message())).map_err(|e| e.to_string())))));
    v.push(("CMS wrapper", "ProvisioningCms::create of a revoke request, decoded again".into(), Box::new(move || { let signer = PoolSigner::load();
        let m = prov::Message::revoke(hd("child"), hd("parent"), prov::RevocationRequest::new(prov::ResourceClassName::from("a\"b'c > d"), fx.keys[3]));
        match prov::ProvisioningCms::create(m.clone(), &Kid(0), &signer) { Err(e) => format!("Err({e})"), Ok(cms) => format!("{:?}", prov::ProvisioningCms::decode(cms.to_bytes().as_ref()).map(|c| *c.message() == m).map_err(|e| e.to_string())) } })));
    v.push(("CMS wrapper", "PublicationCms::create of a list reply, decoded again".into(), Box::new(move || { let signer = PoolSigner::load();
        let m = publ::Message::list_reply(publ::ListReply::new(vec![publ::ListElement::new(fx.rsyncs[3].clone(), fx.hashes[2])]));
        match publ::PublicationCms::create(m.clone(), &Kid(1), &signer) { Err(e) => format!("Err({e})"), Ok(cms) => format!("{:?}", publ::PublicationCms::decode(cms.to_bytes().as_ref()).map(|c| c.into_message() == m).map_err(|e| e.to_string())) } })));
    // the value types: constructors accepting and refusing, Display, serde, the base64 flavours
    fn r<T: std::fmt::Display, E: std::fmt::Display>(x: Result<T, E>) -> String { match x { Ok(v) => format!("Ok({v})"), Err(e) => format!("Err({e})") } }
    v.push(("values", "Handle: from_str, TryFrom<String>, Display, serde".into(), Box::new(|| format!("{} {} {} {} {:?}", r(idx::Handle::<idx::Child>::from_str("Carol/1")), r(idx::Handle::<idx::Child>::from_str("a b")), r(idx::Handle::<idx::Parent>::try_from("x_y".to_string())),
        r(idx::Handle::<idx::Parent>::try_from("\u{e9}".to_string())), serde_json::to_string(&hd::<idx::Myself>("a/b")).map_err(|e| e.to_string()).and_then(|s| serde_json::from_str::<idx::Handle<idx::Myself>>(&s).map(|h| h.to_string()).map_err(|e| e.to_string()))))));
    v.push(("values", "ServiceUri: from_str, Display".into(), Box::new(|| ["https://h/x?a&b", "http://h/a?b=c&d='e'#f", "HTTP://h", "ftp://h", ""].iter().map(|s| r(idx::ServiceUri::from_str(s))).collect::<Vec<_>>().join(" "))));
    v.push(("values", "ReportErrorCode, PayloadType: from_str, Display".into(), Box::new(|| format!("{} {} {} {}", r(publ::ReportErrorCode::from_str("xml_error")), r(publ::ReportErrorCode::from_str("nope")), r(prov::PayloadType::from_str("list_response")), r(prov::PayloadType::from_str("nope"))))));
    v.push(("values", "ResourceClassName, RequestResourceLimit, NotPerformedResponse, ErrorReply: Display".into(), Box::new(move || { let mut er = publ::ErrorReply::for_error(publ::ReportError::with_code(publ::ReportErrorCode::XmlError)); er.add_error(publ::ReportError::with_code(publ::ReportErrorCode::OtherError));
        format!("{} {} {} {} {er}", prov::ResourceClassName::from("a\"b'c > d"), fx.limit(6, 8, 8), fx.limit(0, 0, 0), prov::NotPerformedResponse::err_1201()) })));
    v.push(("values", "publication::Base64: from_content, Display, serde".into(), Box::new(|| { let b = Base64::from_content(b"<&\"'>"); format!("{b} {:?} {:?}", serde_json::to_string(&b).map_err(|e| e.to_string()),
        ["PCYiJz4=", "PCYi Jz4=", "A", "===="].iter().map(|s| serde_json::from_value::<Base64>(serde_json::Value::String(s.to_string())).map(|b| hex(&b.to_bytes())).map_err(|e| e.to_string())).collect::<Vec<_>>()) })));
    v.push(("values", "rrdp::Hash, KeyIdentifier, uri::Rsync, uri::Https: from_str, Display".into(), Box::new(|| ["zz", "00", "rsync://h/m/a&b", "https://h/'"].iter().map(|s| format!("{} {} {} {}", r(Hash::from_str(s)), r(KeyIdentifier::from_str(s)), r(uri::Rsync::from_str(s)), r(uri::Https::from_str(s)))).collect::<Vec<_>>().join(" "))));
    v.push(("values", "util::base64::Xml: encode, decode with white space, decode refusing".into(), Box::new(|| format!("{} {:?} {:?} {:?}", rpki::util::base64::Xml.encode(b"<&\"'>?~"), rpki::util::base64::Xml.decode("PCYi\n Jz4/\tfg==").map(|v| hex(&v)).map_err(|e| e.to_string()),
        rpki::util::base64::Xml.decode("PCYiJz4_fg").map(|v| hex(&v)).map_err(|e| e.to_string()), rpki::util::base64::Xml.decode_bytes(b"QUJD").map(|v| hex(&v)).map_err(|e| e.to_string())))));
    v.push(("values", "util::base64::Serde and Slurm: encode, decode".into(), Box::new(|| format!("{} {:?} {:?} {} {:?} {:?}", rpki::util::base64::Serde.encode(b"<&\"'>?~"), rpki::util::base64::Serde.decode("PCYiJz4/fg==").map(|v| hex(&v)).map_err(|e| e.to_string()),
        rpki::util::base64::Serde.decode("PCYi Jz4/fg==").map(|v| hex(&v)).map_err(|e| e.to_string()), rpki::util::base64::Slurm.encode(b"<&\"'>?~"), rpki::util::base64::Slurm.decode("PCYiJz4_fg").map(|v| hex(&v)).map_err(|e| e.to_string()),
        rpki::util::base64::Slurm.decode("PCYiJz4/fg==").map(|v| hex(&v)).map_err(|e| e.to_string())))));
    v
}

const SUBJECTS_MARK: &str = "#### the subjects\n";

fn first_op_block(i: usize, name: &str, observation: &str) -> String { format!("#### operation {i}: {name}\n{observation}\n") }

/// Child-process mode of history.process: the operations `which` of the menu, in this order, before anything else; then the subjects.
fn first_op_child(ctx: &Ctx, which: &[usize]) -> String {
    let mut out = String::new();
    {
        let fx0 = Fx::load_opt(ctx, false);
        let menu0 = message_menu_built(&fx0);
        let files = Files::load();
        let captured = captured_documents();
        let ops = first_operations(&fx0, &menu0, &files, &captured);
        for &i in which { match ops.get(i) { Some((_, n, f)) => out.push_str(&first_op_block(i, n, &observe(f.as_ref()))), None => out.push_str(&first_op_block(i, "not in the menu", "")) } }
    }
    let fx = Fx::load(ctx);
    out.push_str(SUBJECTS_MARK);
    out.push_str(&subject_dump(&Shared::load(&fx)));
    out
}

fn space_process_history(ctx: &Ctx, sh: &Shared) {
    let thorough = ctx.tier.is_thorough();
    let sp = ctx.space("history.process",
        "process-level history: state that is set once per process (a lazily built table, a OnceLock filled by whichever caller comes first) is decided by the FIRST operation of a process, and fresh threads share it. For every operation of a menu, a child process of this binary performs that operation as the very first XML operation of its process (before it: value constructors and DER decoding only, no XML read or written), then evaluates the history subjects (the round trip of one message of every type of the three protocols with special characters in every escaped position, rejections by each parser, Display of every value type, not-after times, CMS wrappers, identity certificates, value constructors). Oracles: every subject observation of the child equals the one made in this process, where thousands of operations came before; and the first operation's own result equals the result of the same operation evaluated last of all in this process (for the xml::encode operations the result is: Ok/Err, the verdict of this file's well-formedness checker and whether the text reads back as written -- not the octets, PCDATA may or may not escape '>' and quotes). Menu: rpki::xml::encode -- a text without / with every special character / empty, as str, [u8] and Display value, placed by Content::pcdata, Element::attr, Text::write_escaped in both TextEscape modes, Content::raw, Content::base64 (no attribute before the text except in the attr mode), into sinks failing after 9 and 14 octets, with set_indent; rpki::xml::decode -- documents with and without references, namespaces, declarations, cut, non-ASCII, with limits 1 / 30 / 100000, through every public method of Reader / Content / Element / AttrValue / Text; every message the constructors of the menu make written by write_xml, to_xml_string, Display and into a sink failing after 40 octets; every captured document of test-data/ca and the XML inside every captured CMS parsed, two documents with references in attributes and text, per parser a document cut to half and another type's document; CMS decode / validate_at / create; constructors, Display and serde of the value types; the base64 flavours; and no operation at all. thorough: additionally all ordered pairs of every 5th operation. non-trivial = child processes whose first operation is not 'nothing'");
    let here = subject_dump(sh);
    let n_subjects = here.matches("\n## ").count() as u64 + 1;
    let exe = match std::env::current_exe() { Ok(e) => e, Err(e) => { ctx.machinery_error(format!("current_exe: {e}")); sp.done(false, "not run"); return } };
    let fx0 = Fx::load_opt(ctx, false);
    let menu0 = message_menu_built(&fx0);
    let captured = captured_documents();
    let ops = first_operations(&fx0, &menu0, &sh.files, &captured);
    let mut runs: Vec<Vec<usize>> = (0..ops.len()).map(|i| vec![i]).collect();
    let singles = runs.len();
    if thorough { let sel: Vec<usize> = (1..ops.len()).step_by(5).collect(); for &a in &sel { for &b in &sel { if a != b { runs.push(vec![a, b]) } } } }
    // the same operations in this process, last of all
    let mine: Vec<String> = ops.iter().map(|(_, _, f)| on_fresh_thread(|| observe(f.as_ref()))).collect();
    sp.evals(ops.len() as u64);
    let fails = Ordered::new();
    let start = |run: &[usize]| std::process::Command::new(&exe).arg("--c11-first-operation").arg(run.iter().map(|i| i.to_string()).collect::<Vec<_>>().join(",")).arg(ctx.tier.name()).output();
    let names = |run: &[usize]| run.iter().map(|&i| ops[i].1.clone()).collect::<Vec<_>>().join("; then ");
    runs.par_iter().enumerate().for_each(|(ri, run)| {
        let mut out = match start(run) { Ok(o) => o, Err(e) => { ctx.machinery_error(format!("cannot start the child process for first operation {run:?}: {e}")); return } };
        if out.status.code().is_none() {
            // killed by a signal: once more; the same death twice is the library's doing
            use std::os::unix::process::ExitStatusExt;
            let first = out.status.signal();
            match start(run) { Ok(o) => out = o, Err(e) => { ctx.machinery_error(format!("cannot start the child process for first operation {run:?}: {e}")); return } }
            if out.status.code().is_none() && out.status.signal() == first {
                fails.push((ri as u64) << 4, "C11.history.process.killed_by_signal", format!("a new process whose first operation is [{}]", names(run)), format!("the process was killed by signal {first:?}, twice in a row"));
                return
            }
        }
        let there = String::from_utf8_lossy(&out.stdout).into_owned();
        let Some((first, subjects)) = there.split_once(SUBJECTS_MARK) else {
            ctx.machinery_error(format!("child process for first operation {run:?} gave no subject observations (status {:?}): {}", out.status, trunc(&String::from_utf8_lossy(&out.stderr), 400))); return };
        sp.evals(n_subjects + run.len() as u64);
        if run != &[0] { sp.nontrivial(1) }
        let failed_path = first.lines().any(|l| !l.starts_with("####") && (l.contains("Err(") || l.starts_with("PANIC")));
        sp.outcome(if run == &[0] { "no-first-operation" } else if failed_path { "first-operation-took-an-error-path" } else { "first-operation-succeeded" });
        let expected: String = run.iter().map(|&i| first_op_block(i, &ops[i].1, &mine[i])).collect();
        if first != expected {
            let (a, b): (Vec<&str>, Vec<&str>) = (first.split("#### ").collect(), expected.split("#### ").collect());
            let k = a.iter().zip(&b).position(|(x, y)| x != y).unwrap_or(0);
            fails.push((ri as u64) << 4, "C11.history.process.first_operation", format!("a new process whose first operations are [{}]: the result of {}", names(run), a.get(k).and_then(|x| x.lines().next()).unwrap_or("?")),
                format!("observed {} -- the same operation evaluated last of all in the explorer's process gives {}", trunc(&first_difference(a.get(k).unwrap_or(&""), b.get(k).unwrap_or(&"")), 400), trunc(&first_difference(b.get(k).unwrap_or(&""), a.get(k).unwrap_or(&"")), 400)));
        }
        if subjects != here {
            let (a, b): (Vec<&str>, Vec<&str>) = (here.split("## ").collect(), subjects.split("## ").collect());
            // the witness: the first differing subject whose observation says in words what went wrong, else the first differing one
            const LOUD: [&str; 5] = ["NOT WELL-FORMED", "DOES NOT PARSE BACK", "PARSES BACK UNEQUAL", "DIFFERS", "PANIC"];
            let differing: Vec<usize> = (0..a.len().max(b.len())).filter(|&k| a.get(k) != b.get(k)).collect();
            let loud = |k: usize| LOUD.iter().find(|m| b.get(k).is_some_and(|x| x.contains(**m)) && !a.get(k).is_some_and(|x| x.contains(**m)));
            let k = differing.iter().copied().find(|&k| loud(k).is_some()).or(differing.first().copied()).unwrap_or(0);
            let said = loud(k).and_then(|m| b[k].find(m).map(|at| format!("the written message {}; ", trunc(&b[k][at..], 160)))).unwrap_or_default();
            fails.push((ri as u64) << 4 | 1, "C11.history.process.subjects", format!("in a new process, after [{}] as the first operation: {}", names(run), a.get(k).or(b.get(k)).and_then(|x| x.lines().next()).unwrap_or("?")),
                format!("{said}{} of {} subjects differ; observed {} -- in the explorer's process the same subject gives {}", differing.len(), a.len().max(b.len()) - 1, trunc(&first_difference(b.get(k).unwrap_or(&""), a.get(k).unwrap_or(&"")), 300), trunc(&first_difference(a.get(k).unwrap_or(&""), b.get(k).unwrap_or(&"")), 300)));
        }
    });
    fails.flush(ctx, &sp);
    let mut kinds: BTreeMap<&'static str, u64> = BTreeMap::new();
    for (k, _, _) in &ops { *kinds.entry(k).or_insert(0) += 1 }
    sp.set("first_operations_by_kind", serde_json::json!(kinds));
    sp.set("first_operations", serde_json::json!(ops.iter().map(|o| o.1.clone()).collect::<Vec<_>>()));
    sp.sample_str(|| ops[2].1.clone());
    sp.sample_str(|| ops[ops.len() / 2].1.clone());
    sp.done(true, &format!("{singles} first operations x {n_subjects} subjects, one child process each{}", if thorough { format!("; {} ordered pairs of every 5th operation", runs.len() - singles) } else { String::new() }));
}

//--- call parameters

/// `padded` must be `canon` itself or `canon` padded with `fill` to `width` on the side(s) the alignment says.
fn padding_ok(canon: &str, padded: &str, fill: char, width: usize) -> Result<(), String> {
    if padded == canon { return Ok(()) }
    let total = padded.chars().count();
    let cl = canon.chars().count();
    if total != width.max(cl) { return Err(format!("{total} characters for width {width}, value has {cl}")) }
    // the value may itself start or end with the fill character: try every split of the padding
    for l in 0..=total - cl {
        let body: String = padded.chars().skip(l).take(cl).collect();
        if body == canon && padded.chars().take(l).all(|c| c == fill) && padded.chars().skip(l + cl).all(|c| c == fill) { return Ok(()) }
    }
    Err("the value is not contained unchanged between the fill characters".into())
}

fn space_display(ctx: &Ctx, sh: &Shared) {
    let sp = ctx.space("call_parameters.display",
        "Display of Handle, ServiceUri, ResourceClassName, PayloadType, ReportErrorCode, rrdp::Hash, KeyIdentifier, uri::Rsync, uri::Https, Base64, RequestResourceLimit, IssuanceRequest, KeyElement, NotPerformedResponse, ErrorReply, the four RFC 8183 messages and two error types, through to_string(), format!(\"{}\") and with width 0,1,10,63,64,65,70,300 x alignment default/</>/^ x fill space/*/0 and the {:0w} form: to_string() equals the plain text; a formatted text is the plain text, unchanged, or that text padded with the fill to the width; with the padding removed it parses back (FromStr / parse) to the value where the type has a way back; non-trivial = widths larger than the plain text");
    let shown = shown_values(sh.fx, &sh.menu);
    let fails = Ordered::new();
    let widths = [0usize, 1, 10, 63, 64, 65, 70, 300];
    shown.par_iter().enumerate().for_each(|(vi, s)| {
        let (name, v, back) = (&s.name, &s.value, &s.back);
        let canon = match guard(|| format!("{v}")) { Ok(c) => c, Err(p) => { fails.push((vi as u64) << 20, "C11.call_parameters.display", name.clone(), p); return } };
        sp.eval(); sp.outcome("to_string");
        fails.check((vi as u64) << 20 | 1, "C11.call_parameters.display", || format!("{name}.to_string()"), || {
            if v.to_string() != canon { return Err("to_string() differs from format!(\"{}\")".into()) }
            if !back(&canon) { return Err(format!("{:?} does not parse back to the value", trunc(&canon, 200))) }
            Ok(())
        });
        for (wi, &w) in widths.iter().enumerate() {
            macro_rules! spec { ($k:expr, $text:expr, $fill:expr, $fmt:literal) => { spec!($k, $text, $fill, $fmt, $fill) }; ($k:expr, $text:expr, $fill:expr, $fmt:literal, $alt:expr) => {{
                sp.eval(); if w > canon.chars().count() { sp.nontrivial(1) }
                sp.outcome(if w > canon.chars().count() { "wider-than-text" } else { "not-wider" });
                fails.check((vi as u64) << 20 | (wi as u64 + 1) << 8 | $k, "C11.call_parameters.display", || format!("format!(\"{}\", {name}) with w={w}", $text), || {
                    let padded = format!($fmt, v, w = w);
                    // (the `0` flag without an explicit fill is a numeric notion: a text-like Display may pad with spaces)
                    let fill: char = if padding_ok(&canon, &padded, $fill, w).is_ok() { $fill } else { $alt };
                    padding_ok(&canon, &padded, fill, w).map_err(|e| format!("{e}: {:?} vs plain {:?}", trunc(&padded, 300), trunc(&canon, 300)))?;
                    let cl = canon.chars().count();
                    let n = padded.chars().count();
                    let stripped = (0..=n - cl).map(|l| padded.chars().skip(l).take(cl).collect::<String>()).find(|b| *b == canon).unwrap_or_else(|| padded.clone());
                    if !back(&stripped) { return Err(format!("{:?} (padding removed) does not parse back to the value", trunc(&stripped, 200))) }
                    Ok(())
                });
            }}}
            spec!(0, "{:w$}", ' ', "{:w$}"); spec!(1, "{:<w$}", ' ', "{:<w$}"); spec!(2, "{:>w$}", ' ', "{:>w$}"); spec!(3, "{:^w$}", ' ', "{:^w$}");
            spec!(4, "{:*<w$}", '*', "{:*<w$}"); spec!(5, "{:*>w$}", '*', "{:*>w$}"); spec!(6, "{:*^w$}", '*', "{:*^w$}");
            spec!(7, "{:0<w$}", '0', "{:0<w$}"); spec!(8, "{:0>w$}", '0', "{:0>w$}"); spec!(9, "{:0^w$}", '0', "{:0^w$}"); spec!(10, "{:0w$}", '0', "{:0w$}", ' ');
        }
    });
    fails.flush(ctx, &sp);
    sp.set("values", serde_json::json!(shown.iter().map(|s| s.name.clone()).collect::<Vec<_>>()));
    sp.sample_str(|| format!("{:*^70}", sh.fx.handle::<idx::Myself>(3)));
    sp.done(true, &format!("{} values x (to_string + 8 widths x 11 format specs)", shown.len()));
}

/// The sink kinds a caller may hand to write_xml.
#[derive(Clone, Copy, Debug, PartialEq, Eq)]
enum SinkKind { Vec, DynWrite, Cursor, SliceExact, SliceLarger, BufWriter(usize), LineWriter, Chunk(usize), Interrupting, Vectored }

const SINKS: [SinkKind; 16] = [SinkKind::Vec, SinkKind::DynWrite, SinkKind::Cursor, SinkKind::SliceExact, SinkKind::SliceLarger, SinkKind::BufWriter(1), SinkKind::BufWriter(7), SinkKind::BufWriter(8192),
    SinkKind::LineWriter, SinkKind::Chunk(1), SinkKind::Chunk(2), SinkKind::Chunk(3), SinkKind::Chunk(7), SinkKind::Chunk(64), SinkKind::Interrupting, SinkKind::Vectored];

/// Accepts at most `max` octets per call; `interrupt`: every other call fails with ErrorKind::Interrupted
/// (which io::Write::write_all and every conforming caller retries).
struct ShortSink { max: usize, interrupt: bool, calls: usize, got: Vec<u8> }
impl io::Write for ShortSink {
    fn write(&mut self, buf: &[u8]) -> io::Result<usize> {
        self.calls += 1;
        if self.interrupt && self.calls % 2 == 1 { return Err(io::Error::new(io::ErrorKind::Interrupted, "interrupted")) }
        let n = self.max.min(buf.len());
        self.got.extend_from_slice(&buf[..n]);
        Ok(n)
    }
    fn flush(&mut self) -> io::Result<()> { Ok(()) }
}

/// A sink that prefers vectored writes (and takes the first non-empty buffer of each only).
struct VectoredSink { got: Vec<u8> }
impl io::Write for VectoredSink {
    fn write(&mut self, buf: &[u8]) -> io::Result<usize> { self.got.extend_from_slice(buf); Ok(buf.len()) }
    fn write_vectored(&mut self, bufs: &[io::IoSlice<'_>]) -> io::Result<usize> {
        match bufs.iter().find(|b| !b.is_empty()) { Some(b) => { self.got.extend_from_slice(b); Ok(b.len()) } None => Ok(0) }
    }
    fn flush(&mut self) -> io::Result<()> { Ok(()) }
}

/// Writes `m` `times` times into a sink of kind `k`; what arrived.
fn write_into(m: &AnyMsg, k: SinkKind, times: usize, doc_len: usize) -> Result<Vec<u8>, String> {
    let e = |e: io::Error| format!("write_xml fails: {e}");
    match k {
        SinkKind::Vec => { let mut v = Vec::new(); for _ in 0..times { m.write_xml(&mut v).map_err(e)? } Ok(v) }
        SinkKind::DynWrite => { let mut v = Vec::new(); { let mut d: &mut dyn io::Write = &mut v; for _ in 0..times { m.write_xml(&mut d).map_err(e)? } } Ok(v) }
        SinkKind::Cursor => { let mut c = io::Cursor::new(Vec::new()); for _ in 0..times { m.write_xml(&mut c).map_err(e)? } Ok(c.into_inner()) }
        SinkKind::SliceExact | SinkKind::SliceLarger => {
            let extra = if k == SinkKind::SliceLarger { 10 } else { 0 };
            let mut buf = vec![0x55u8; doc_len * times + extra];
            let left = { let mut s: &mut [u8] = &mut buf[..]; for _ in 0..times { m.write_xml(&mut s).map_err(e)? } s.len() };
            if left != extra { return Err(format!("{left} octets of the slice left, {extra} expected")) }
            if buf[doc_len * times..].iter().any(|b| *b != 0x55) { return Err("octets beyond the document were touched".into()) }
            buf.truncate(doc_len * times);
            Ok(buf)
        }
        SinkKind::BufWriter(cap) => { let mut w = io::BufWriter::with_capacity(cap, Vec::new()); for _ in 0..times { m.write_xml(&mut w).map_err(e)? } w.into_inner().map_err(|e| format!("BufWriter::into_inner: {}", e.error())) }
        SinkKind::LineWriter => { let mut w = io::LineWriter::new(Vec::new()); for _ in 0..times { m.write_xml(&mut w).map_err(e)? } w.into_inner().map_err(|e| format!("LineWriter::into_inner: {}", e.error())) }
        SinkKind::Chunk(n) => { let mut s = ShortSink { max: n, interrupt: false, calls: 0, got: Vec::new() }; for _ in 0..times { m.write_xml(&mut s).map_err(e)? } Ok(s.got) }
        SinkKind::Interrupting => { let mut s = ShortSink { max: 5, interrupt: true, calls: 0, got: Vec::new() }; for _ in 0..times { m.write_xml(&mut s).map_err(e)? } Ok(s.got) }
        SinkKind::Vectored => { let mut s = VectoredSink { got: Vec::new() }; for _ in 0..times { m.write_xml(&mut s).map_err(e)? } Ok(s.got) }
    }
}

fn space_sinks(ctx: &Ctx, sh: &Shared) {
    let sp = ctx.space("call_parameters.sinks",
        "every writer entry point (write_xml of the six message types; to_xml_bytes / to_xml_vec, to_xml_string, Display and to_string where they exist; ProvisioningCms::create / PublicationCms::create, whose signed content is read back) for every message of the menu (one per message type of the three protocols and more) into every sink kind: Vec, `&mut dyn Write`, io::Cursor<Vec>, a `&mut [u8]` of exactly the document's size and 10 octets larger, BufWriter of capacity 1 / 7 / 8192, LineWriter, sinks that accept at most 1 / 2 / 3 / 7 / 64 octets per call, a sink that answers every other call with ErrorKind::Interrupted, a sink taking vectored writes; the message written once and twice in a row into the same sink: IF write_xml returns Ok, the octets that arrived are exactly the document (twice: the document twice) the first evaluation of the message on a new thread gave, which parses back to the message. An Err from write_xml is not judged and counted as an outcome class (messages with certificates / CSRs are written through base64's EncoderWriter, which makes write_all fail with WriteZero once its sink has made a short write: dependency behaviour). No sink of this space ever answers Ok(0), and none is ever full: a sink that answers Ok(0) for ever makes the encoder's Drop retry without end (dependency behaviour as well), so such sinks are never driven into it here or in history.independent; non-trivial = short-write, interrupting and buffering sinks");
    let fails = Ordered::new();
    let signer = rpki_verif::engine::signer::PoolSigner::load();
    sh.menu.par_iter().enumerate().for_each(|(mi, (name, m))| {
        let canon = &sh.docs[mi];
        let mut oc: BTreeMap<&'static str, u64> = BTreeMap::new();
        let (mut n, mut nt) = (0u64, 0u64);
        for (ki, k) in SINKS.iter().enumerate() { for times in [1usize, 2] {
            n += 1;
            let plain = matches!(k, SinkKind::Vec | SinkKind::DynWrite | SinkKind::Cursor | SinkKind::SliceExact | SinkKind::SliceLarger);
            if !plain { nt += 1 }
            *oc.entry(if plain { "plain-sink" } else if *k == SinkKind::Interrupting { "interrupting-sink" } else if matches!(k, SinkKind::Chunk(_) | SinkKind::Vectored) { "short-write-sink" } else { "buffering-sink" }).or_insert(0) += 1;
            let mut refused = false;
            fails.check((mi as u64) << 16 | (ki as u64) << 4 | times as u64, "C11.call_parameters.sinks", || format!("write_xml of {name} {times}x into {k:?}"), || {
                // judged: IF the entry point reports success, what reached the sink is the document. An Err is
                // not judged (certificates and CSRs go through base64's EncoderWriter, which answers Ok(0) to
                // write_all after a short write of its sink: write_xml then fails with WriteZero -- dependency
                // behaviour, recorded as an outcome class)
                let got = match write_into(m, *k, times, canon.len()) { Ok(g) => g, Err(e) if e.starts_with("write_xml fails") => { refused = true; return Ok(()) } Err(e) => return Err(e) };
                let want: Vec<u8> = canon.iter().copied().cycle().take(canon.len() * times).collect();
                if got != want { return Err(format!("write_xml returns Ok, but {} octets arrived and the document has {} x {times}; {}", got.len(), canon.len(), trunc(&first_difference(&text(&got), &text(&want)), 300))) }
                Ok(())
            });
            if refused { *oc.entry("write_xml-returned-an-error (not judged)").or_insert(0) += 1 }
        }}
        // the other entry points
        n += 1; *oc.entry("entry-points").or_insert(0) += 1;
        fails.check((mi as u64) << 16 | 0xFFF0, "C11.call_parameters.entry_points", || format!("to_xml_bytes / to_xml_string / Display / to_string of {name}"), || {
            if m.to_vec() != *canon { return Err("to_xml_bytes / to_xml_vec differs from the document written first".into()) }
            if m.to_xml_string().as_bytes() != canon.as_slice() { return Err("to_xml_string differs from the document".into()) }
            if let Some(d) = m.display() {
                if d.to_string().as_bytes() != canon.as_slice() { return Err("to_string() differs from the document".into()) }
                if format!("{d}").as_bytes() != canon.as_slice() { return Err("Display differs from the document".into()) }
                let mut s = String::new(); { use std::fmt::Write as _; write!(s, "{d}|{d}").map_err(|e| e.to_string())? }
                if s.as_bytes() != [canon.as_slice(), b"|", canon.as_slice()].concat() { return Err("Display written twice into one String differs".into()) }
            }
            match AnyMsg::parse(m.parser(), canon) { Ok(b) if b == *m => Ok(()), Ok(_) => Err("the document parses back unequal".into()), Err(e) => Err(format!("the document does not parse back: {e}")) }
        });
        // the CMS entry points: the signed content is the document
        if matches!(m, AnyMsg::Prov(_) | AnyMsg::Pub(_)) {
            n += 1; nt += 1; *oc.entry("cms-create").or_insert(0) += 1;
            fails.check((mi as u64) << 16 | 0xFFF1, "C11.call_parameters.entry_points", || format!("Cms::create of {name}"), || {
                use rpki_verif::engine::signer::Kid;
                let (content, same) = match m {
                    AnyMsg::Prov(m) => { let cms = prov::ProvisioningCms::create(m.clone(), &Kid(0), &signer).map_err(|e| format!("create: {e}"))?;
                        let back = prov::ProvisioningCms::decode(cms.to_bytes().as_ref()).map_err(|e| format!("decode of the created CMS: {e}"))?;
                        (back.clone().unpack().0.content().to_bytes(), back.message() == m && cms.message() == m) }
                    AnyMsg::Pub(m) => { let cms = publ::PublicationCms::create(m.clone(), &Kid(0), &signer).map_err(|e| format!("create: {e}"))?;
                        let back = publ::PublicationCms::decode(cms.to_bytes().as_ref()).map_err(|e| format!("decode of the created CMS: {e}"))?;
                        (back.clone().unpack().0.content().to_bytes(), back.into_message() == *m && cms.into_message() == *m) }
                    _ => unreachable!(),
                };
                if content.as_ref() != canon.as_slice() { return Err(format!("the signed content differs from the document: {}", trunc(&first_difference(&text(content.as_ref()), &text(canon)), 300))) }
                if !same { return Err("the message in the created / decoded CMS differs".into()) }
                Ok(())
            });
        }
        sp.evals(n); sp.nontrivial(nt); sp.merge_outcomes(&oc);
    });
    fails.flush(ctx, &sp);
    sp.set("sinks", serde_json::json!(SINKS.iter().map(|k| format!("{k:?}")).collect::<Vec<_>>()));
    sp.sample_str(|| format!("write_xml of {} 2x into Chunk(3)", sh.menu[2].0));
    sp.done(true, &format!("{} messages x {} sink kinds x once / twice, + the other entry points", sh.menu.len(), SINKS.len()));
}

//--- handed-out parts and shared values

#[derive(Clone, Copy, Debug, PartialEq, Eq)]
enum HOp { WriteShared, ToBytes, ToString, CloneWriteDrop, DecodeOtherKeep, DecodeOtherDrop, Rebuild, FailedWrite, Redecode, Sweep }
const HOPS: [HOp; 10] = [HOp::WriteShared, HOp::ToBytes, HOp::ToString, HOp::CloneWriteDrop, HOp::DecodeOtherKeep, HOp::DecodeOtherDrop, HOp::Rebuild, HOp::FailedWrite, HOp::Redecode, HOp::Sweep];

fn space_handed_out(ctx: &Ctx, sh: &Shared) {
    let sp = ctx.space("handed_out.sequences",
        "every message of the menu decoded from ONE buffer that holds the documents of all menu messages, then every sequence of 0..=3 operations over {write_xml appended to a shared Vec, to_xml_bytes, to_xml_string / Display, clone + write the clone + drop it, decode another message from the same buffer and keep it / drop it, take the message apart through unpack / into_* / the accessors and build it again through the constructors (kept alive), a write_xml that fails half way, decode the message again from the buffer (the old value dropped), the accessor sweep}: every write gives exactly the document, the other decoded and the rebuilt messages give theirs (also after the sequence), the rebuilt message equals the decoded one, the message still equals its constructed twin and the buffer is unchanged; non-trivial = sequences with a write after a decode / rebuild / failed write");
    let mut buf: Vec<u8> = Vec::new();
    let mut regions: Vec<(usize, usize)> = Vec::new();
    for d in &sh.docs { buf.extend_from_slice(b"\n<!-- next document -->\n"); let a = buf.len(); buf.extend_from_slice(d); regions.push((a, buf.len())) }
    let pristine = buf.clone();
    let seqs = sequences(HOPS.len(), 3);
    let fails = Ordered::new();
    let nm = sh.menu.len();
    sh.menu.par_iter().enumerate().for_each(|(mi, (name, m0))| {
        let mut oc: BTreeMap<&'static str, u64> = BTreeMap::new();
        let mut nt = 0u64;
        let canon = &sh.docs[mi];
        let (a, b) = regions[mi];
        for (si, seq) in seqs.iter().enumerate() {
            let ops: Vec<HOp> = seq.iter().map(|i| HOPS[*i]).collect();
            let is_write = |o: &HOp| matches!(o, HOp::WriteShared | HOp::ToBytes | HOp::ToString | HOp::CloneWriteDrop);
            let disturbed = ops.iter().enumerate().any(|(i, o)| is_write(o) && ops[..i].iter().any(|p| !is_write(p) && *p != HOp::Sweep));
            if disturbed { nt += 1 }
            *oc.entry(if ops.contains(&HOp::FailedWrite) { "with-a-failed-write" } else if disturbed { "write-after-decode-or-rebuild" } else { "undisturbed" }).or_insert(0) += 1;
            fails.check((mi as u64) << 20 | si as u64, "C11.handed_out.sequences", || format!("{name} decoded from the shared buffer, then {ops:?}"), || {
                let p = m0.parser();
                let mut m = AnyMsg::parse(p, &buf[a..b]).map_err(|e| format!("the document does not parse: {e}"))?;
                if m != *m0 { return Err("the decoded message differs from the constructed one".into()) }
                let mut out: Vec<u8> = Vec::new();
                let mut kept: Vec<(usize, AnyMsg)> = Vec::new();
                let same = |got: &[u8], want: &[u8], what: &str| if got == want { Ok(()) } else { Err(format!("{what}: {}", trunc(&first_difference(&text(got), &text(want)), 300))) };
                for (step, op) in ops.iter().enumerate() {
                    let oi = (mi + 1 + step * 5) % nm;
                    let at = format!("step {step} {op:?}");
                    match op {
                        HOp::WriteShared => { let before = out.len(); m.write_xml(&mut out).map_err(|e| format!("{at}: {e}"))?; same(&out[before..], canon, &at)? }
                        HOp::ToBytes => same(&m.to_vec(), canon, &at)?,
                        HOp::ToString => { same(m.to_xml_string().as_bytes(), canon, &at)?; if let Some(d) = m.display() { same(d.to_string().as_bytes(), canon, &at)? } }
                        HOp::CloneWriteDrop => { let c = m.clone(); same(&c.to_vec(), canon, &at)?; drop(c) }
                        HOp::DecodeOtherKeep | HOp::DecodeOtherDrop => {
                            let (oa, ob) = regions[oi];
                            let o = AnyMsg::parse(sh.menu[oi].1.parser(), &buf[oa..ob]).map_err(|e| format!("{at}: {} does not parse: {e}", sh.menu[oi].0))?;
                            if o != sh.menu[oi].1 { return Err(format!("{at}: {} decodes to another message", sh.menu[oi].0)) }
                            same(&o.to_vec(), &sh.docs[oi], &at)?;
                            if *op == HOp::DecodeOtherKeep { kept.push((oi, o)) }
                        }
                        HOp::Rebuild => if let Some(r) = m.rebuild() {
                            if r != m { return Err(format!("{at}: the message built from the parts differs from the decoded one")) }
                            same(&r.to_vec(), canon, &at)?;
                            kept.push((mi, r));
                        },
                        HOp::FailedWrite => { let mut s = FaultySink::new(canon.len() / 2, Fault::Error); let _ = m.write_xml(&mut s); }
                        HOp::Redecode => m = AnyMsg::parse(p, &buf[a..b]).map_err(|e| format!("{at}: {e}"))?,
                        HOp::Sweep => { m.sweep().map_err(|e| format!("{at}: {e}"))?; }
                    }
                }
                same(&m.to_vec(), canon, "after the sequence")?;
                if m != *m0 { return Err("after the sequence the message differs from the constructed one".into()) }
                for (i, k) in &kept { same(&k.to_vec(), &sh.docs[*i], &format!("after the sequence, kept {}", sh.menu[*i].0))? }
                if buf != pristine { return Err("the shared buffer changed".into()) }
                Ok(())
            });
        }
        sp.evals(seqs.len() as u64); sp.nontrivial(nt); sp.merge_outcomes(&oc);
    });
    fails.flush(ctx, &sp);
    sp.set("operations", serde_json::json!(HOPS.iter().map(|o| format!("{o:?}")).collect::<Vec<_>>()));
    sp.sample_str(|| format!("{} decoded from the shared buffer, then [DecodeOtherKeep, FailedWrite, WriteShared]", sh.menu[2].0));
    sp.done(true, &format!("{} messages x {} sequences (length <= 3 over {} operations)", nm, seqs.len(), HOPS.len()));
}

/// The field values of one message, by value: who else holds their buffers is the dimension.
#[derive(Clone)]
struct Vals { h1: idx::Handle<idx::Myself>, h2: idx::Handle<idx::Myself>, rsync: uri::Rsync, rsync2: uri::Rsync, https: uri::Https, svc: idx::ServiceUri, b64: Base64,
    tag: Option<String>, class: prov::ResourceClassName, cert: Cert, csr: RpkiCaCsr, hash: Hash, key: KeyIdentifier }

struct ValTexts { h1: String, h2: String, rsync: String, rsync2: String, https: String, svc: String, content: Vec<u8>, tag: Option<String>, class: String }

fn val_texts(set: usize) -> ValTexts {
    match set {
        0 => ValTexts { h1: "child".into(), h2: "parent".into(), rsync: "rsync://h/m/a.cer".into(), rsync2: "rsync://h/m/".into(), https: "https://h/n.xml".into(), svc: "https://h/s".into(), content: b"abc".to_vec(), tag: Some("t".into()), class: "c".into() },
        1 => ValTexts { h1: "A/b_c-9".into(), h2: "-".into(), rsync: "rsync://a&b/m'/x&y".into(), rsync2: "rsync://h/m/''&&/".into(), https: "https://a&b'c/x&y".into(), svc: SVC_SPECIAL.into(), content: b"<&\"'".to_vec(), tag: Some("t<&\"'>1".into()), class: "a\"b'c > d".into() },
        2 => ValTexts { h1: "Child".into(), h2: "PARENT".into(), rsync: "RSYNC://Host.Example/Module/A.CER".into(), rsync2: "rSyNc://h/m/".into(), https: "HTTPS://Host.Example/N.xml".into(), svc: "HTTPS://H/s".into(), content: b"ABC".to_vec(), tag: Some("T".into()), class: "C".into() },
        _ => ValTexts { h1: "a".repeat(255), h2: "/".repeat(255), rsync: format!("rsync://h/m/{}", "a&".repeat(150)), rsync2: format!("rsync://h/m/{}/", "d'".repeat(150)), https: format!("https://h/{}", "&".repeat(300)),
            svc: format!("http://h/{}", "a&".repeat(150)), content: pattern(1000, 3), tag: None, class: long_text(300) },
    }
}

impl Vals {
    fn fresh(fx: &Fx, t: &ValTexts) -> Result<Vals, String> {
        Ok(Vals { h1: idx::Handle::from_str(&t.h1).map_err(|e| e.to_string())?, h2: idx::Handle::from_str(&t.h2).map_err(|e| e.to_string())?,
            rsync: uri::Rsync::from_str(&t.rsync).map_err(|e| e.to_string())?, rsync2: uri::Rsync::from_str(&t.rsync2).map_err(|e| e.to_string())?, https: uri::Https::from_str(&t.https).map_err(|e| e.to_string())?,
            svc: if t.svc.starts_with("http://") { idx::ServiceUri::Http(t.svc.clone()) } else { idx::ServiceUri::from_str(&t.svc).map_err(|e| e.to_string())? },
            b64: Base64::from_content(&t.content), tag: t.tag.clone(), class: prov::ResourceClassName::from(t.class.as_str()),
            cert: Cert::decode(fx.certs[1].1.to_captured().as_slice()).map_err(|e| e.to_string())?, csr: RpkiCaCsr::decode(fx.csrs[0].1.to_captured().as_slice()).map_err(|e| e.to_string())?,
            hash: fx.hashes[2], key: fx.keys[3] })
    }
    /// every value as text
    fn snapshot(&self) -> Vec<(&'static str, String)> {
        vec![("handle 1", self.h1.as_str().into()), ("handle 2", self.h2.as_str().into()), ("rsync URI", self.rsync.as_str().into()), ("second rsync URI", self.rsync2.as_str().into()), ("https URI", self.https.as_str().into()),
            ("service URI", self.svc.as_str().into()), ("content", self.b64.as_str().into()), ("tag", format!("{:?}", self.tag)), ("class name", self.class.as_ref().into()),
            ("certificate", hex(self.cert.to_captured().as_slice())), ("CSR", hex(self.csr.to_captured().as_slice())), ("hash", self.hash.to_string()), ("key", self.key.to_string())]
    }
    /// every value still reads as it did when `want` was taken
    fn intact(&self, want: &[(&'static str, String)]) -> Result<(), String> {
        for ((what, a), (_, b)) in self.snapshot().iter().zip(want) { if a != b { return Err(format!("{what}: {:?} vs {:?}", trunc(a, 120), trunc(b, 120))) } }
        Ok(())
    }
}

const BUILD_KINDS: [&str; 12] = ["prov.list", "prov.list_response", "prov.issue", "prov.issue_response", "prov.revoke", "prov.revoke_response", "pub.list_reply", "pub.delta", "idex.child_request", "idex.parent_response", "idex.publisher_request", "idex.repository_response"];

fn build(fx: &Fx, kind: usize, v: Vals) -> AnyMsg {
    let limit = fx.limit(6, 8, 8);
    let class = |v: &Vals| prov::ResourceClassEntitlements::new(v.class.clone(), ResourceSet::new(fx.asn[5].clone(), fx.v4[7].clone(), fx.v6[7].clone()), fx.times[0],
        vec![prov::IssuedCert::new(v.rsync.clone(), limit.clone(), v.cert.clone())], prov::SigningCert::new(v.rsync2.clone(), v.cert.clone()));
    match kind {
        0 => AnyMsg::Prov(prov::Message::list(v.h1.convert(), v.h2.into_converted())),
        1 => AnyMsg::Prov(prov::Message::list_response(v.h1.convert(), v.h2.convert(), prov::ResourceClassListResponse::new(vec![class(&v)]))),
        2 => AnyMsg::Prov(prov::Message::issue(v.h1.into_converted(), v.h2.into_converted(), prov::IssuanceRequest::new(v.class, limit, v.csr))),
        3 => { let e = class(&v); AnyMsg::Prov(prov::Message::issue_response(v.h1.convert(), v.h2.convert(), prov::IssuanceResponse::new(e.class_name().clone(), e.resource_set().clone(), e.not_after(), e.issued_certs()[0].clone(), e.signing_cert().clone()))) }
        4 => AnyMsg::Prov(prov::Message::revoke(v.h1.convert(), v.h2.convert(), prov::RevocationRequest::new(v.class, v.key))),
        5 => AnyMsg::Prov(prov::Message::revoke_response(v.h2.convert(), v.h1.convert(), prov::RevocationResponse::from(&prov::RevocationRequest::new(v.class, v.key)))),
        6 => AnyMsg::Pub(publ::Message::list_reply(publ::ListReply::new(vec![publ::ListElement::new(v.rsync.clone(), v.hash), publ::ListElement::new(v.rsync2, v.hash), publ::ListElement::new(v.rsync, fx.hashes[0])]))),
        7 => { let mut d = publ::PublishDelta::empty();
            d.add_publish(publ::Publish::new(v.tag.clone(), v.rsync.clone(), v.b64.clone()));
            d.add_update(publ::Update::new(v.tag.clone(), v.rsync2, v.b64, v.hash));
            d.add_withdraw(publ::Withdraw::new(v.tag, v.rsync, v.hash));
            AnyMsg::Pub(publ::Message::delta(d)) }
        8 => AnyMsg::Child(idx::ChildRequest::new(v.b64, v.h1.into_converted())),
        9 => AnyMsg::Parent(idx::ParentResponse::new(v.b64, v.h2.into_converted(), v.h1.into_converted(), v.svc, v.tag)),
        10 => AnyMsg::Publisher(idx::PublisherRequest::new(v.b64, v.h1.into_converted(), v.tag)),
        _ => AnyMsg::Repo(idx::RepositoryResponse::new(v.b64, v.h1.into_converted(), v.svc, v.rsync2, Some(v.https), v.tag)),
    }
}

const FORMS: [&str; 7] = ["sole owner", "live clones of every value", "clones dropped just before", "views into larger buffers / shared Arcs", "static buffers", "parts of decoded messages, the sources alive", "parts of decoded messages, the sources dropped"];

fn space_ownership(ctx: &Ctx, sh: &Shared) {
    let fx = sh.fx;
    let sp = ctx.space("ownership.shared_values",
        "one message of each of 12 constructor kinds built from field values (handles, rsync / https / service URIs, base64 content, tag, class name, certificate, CSR) in 4 value sets (plain, every XML-special character, upper / mixed letter case, long) whose buffers are (0) solely owned, (1) shared with live clones, (2) shared with clones dropped just before, (3) views into larger Bytes buffers / Arcs shared between both handles, (4) static, (5) parts taken out of other decoded messages through unpack / into_* / accessors with the source messages alive, (6) the same with the sources dropped: the document equals the one the sole-owner twin gives, it parses back to the message, the accessor sweep holds, the other holders (clones, larger buffers, source messages) read and write unchanged afterwards and after the message is dropped, and a second message built from the holders gives the document again; non-trivial = forms 1..6");
    let fails = Ordered::new();
    let cases: Vec<(usize, usize, usize)> = (0..4).flat_map(|s| (0..BUILD_KINDS.len()).flat_map(move |k| (0..FORMS.len()).map(move |f| (s, k, f)))).collect();
    cases.par_iter().for_each(|&(set, kind, form)| {
        sp.eval(); if form > 0 { sp.nontrivial(1) }
        sp.outcome(FORMS[form]);
        fails.check((set * 1000 + kind * 10 + form) as u64, "C11.ownership.shared_values", || format!("{} from value set {set}, {}", BUILD_KINDS[kind], FORMS[form]), || {
            let t = val_texts(set);
            let twin = build(fx, kind, Vals::fresh(fx, &t)?);
            let want = twin.to_vec();
            let judge = |m: &AnyMsg, what: &str| -> Result<(), String> {
                let doc = m.to_vec();
                if doc != want { return Err(format!("{what}: the document differs from the sole-owner twin's: {}", trunc(&first_difference(&text(&doc), &text(&want)), 300))) }
                if *m != twin { return Err(format!("{what}: the message differs from the sole-owner twin")) }
                match AnyMsg::parse(m.parser(), &doc) { Ok(b) if b == *m => {} Ok(_) => return Err(format!("{what}: parses back unequal")), Err(e) => return Err(format!("{what}: does not parse back: {e}")) }
                m.sweep().map(|_| ()).map_err(|e| format!("{what}: {e}"))
            };
            match form {
                0 => judge(&build(fx, kind, Vals::fresh(fx, &t)?), "built"),
                1 => { let v = Vals::fresh(fx, &t)?; let snap = v.snapshot(); let m = build(fx, kind, v.clone()); judge(&m, "built")?; v.intact(&snap)?; drop(m); v.intact(&snap)?; judge(&build(fx, kind, v), "built again from the clones") }
                2 => { let v = Vals::fresh(fx, &t)?; drop(v.clone()); judge(&build(fx, kind, v), "built") }
                3 => {
                    let big = |s: &str| Bytes::from(format!("##{s}##").into_bytes());
                    let (b1, b2, b3) = (big(&t.rsync), big(&t.rsync2), big(&t.https));
                    let der = fx.certs[1].1.to_captured();
                    let bigcert = Bytes::from([&b"\x30\x03abc"[..], der.as_slice(), &b"\x30\x00"[..]].concat());
                    let arc1: std::sync::Arc<str> = t.h1.as_str().into();
                    let mut v = Vals::fresh(fx, &t)?;
                    v.rsync = uri::Rsync::from_bytes(b1.slice(2..2 + t.rsync.len())).map_err(|e| e.to_string())?;
                    v.rsync2 = uri::Rsync::from_bytes(b2.slice(2..2 + t.rsync2.len())).map_err(|e| e.to_string())?;
                    v.https = uri::Https::from_bytes(b3.slice(2..2 + t.https.len())).map_err(|e| e.to_string())?;
                    v.cert = Cert::decode(bigcert.slice(5..5 + der.len())).map_err(|e| e.to_string())?;
                    v.h1 = idx::Handle::new(arc1.clone());
                    if t.h1 == t.h2 { v.h2 = idx::Handle::from(&arc1) }
                    let snap = v.snapshot();
                    let m = build(fx, kind, v.clone());
                    judge(&m, "built")?;
                    let check = || -> Result<(), String> {
                        agree!(&b1[..], format!("##{}##", t.rsync).as_bytes(), "the larger buffer of the rsync URI"); agree!(&b2[..], format!("##{}##", t.rsync2).as_bytes(), "the larger buffer of the second rsync URI");
                        agree!(&b3[..], format!("##{}##", t.https).as_bytes(), "the larger buffer of the https URI"); agree!(&bigcert[5..5 + der.len()], der.as_slice(), "the larger buffer of the certificate");
                        agree!(&*arc1, t.h1.as_str(), "the shared Arc<str>"); Ok(())
                    };
                    check()?; v.intact(&snap)?; drop(m); check()?; v.intact(&snap)?;
                    judge(&build(fx, kind, v), "built again from the views")
                }
                4 => {
                    let leak = |s: &str| -> &'static [u8] { Box::leak(s.as_bytes().to_vec().into_boxed_slice()) };
                    let mut v = Vals::fresh(fx, &t)?;
                    v.rsync = uri::Rsync::from_bytes(Bytes::from_static(leak(&t.rsync))).map_err(|e| e.to_string())?;
                    v.rsync2 = uri::Rsync::from_bytes(Bytes::from_static(leak(&t.rsync2))).map_err(|e| e.to_string())?;
                    v.https = uri::Https::from_bytes(Bytes::from_static(leak(&t.https))).map_err(|e| e.to_string())?;
                    let snap = v.snapshot();
                    let m = build(fx, kind, v.clone());
                    judge(&m, "built")?; drop(m); v.intact(&snap)?;
                    judge(&build(fx, kind, v), "built again")
                }
                _ => {
                    // source messages, written and decoded; their parts become the field values
                    let src = |k: usize| -> Result<(AnyMsg, Vec<u8>), String> { let m = build(fx, k, Vals::fresh(fx, &t)?); let d = m.to_vec(); Ok((AnyMsg::parse(m.parser(), &d).map_err(|e| format!("source {}: {e}", BUILD_KINDS[k]))?, d)) };
                    let sources = vec![src(3)?, src(2)?, src(7)?, src(11)?, src(4)?];
                    let mut v = Vals::fresh(fx, &t)?;
                    for (s, _) in &sources { match s.clone() {
                        AnyMsg::Prov(m) => { let (sd, rc, p) = m.unpack(); match p {
                            prov::Payload::IssueResponse(r) => { v.h1 = sd.into_converted(); v.h2 = rc.convert(); let (u, _, c) = r.into_issued().unpack(); v.rsync = u; v.cert = c }
                            prov::Payload::Issue(r) => { let (n, _, c) = r.unpack(); v.class = n; v.csr = c }
                            prov::Payload::Revoke(r) => { v.key = r.key() }
                            _ => {} } }
                        AnyMsg::Pub(m) => if let Ok(publ::Query::Delta(d)) = m.as_query() { for e in d.into_elements() { match e {
                            publ::PublishDeltaElement::Publish(p) => { let (tag, _, c) = p.unpack(); v.tag = tag; v.b64 = c }
                            publ::PublishDeltaElement::Withdraw(w) => { v.hash = *w.hash() }
                            _ => {} } } },
                        AnyMsg::Repo(m) => { v.svc = m.service_uri().clone(); v.rsync2 = m.repo_info().base_uri().clone(); if let Some(h) = m.rrdp_notification_uri() { v.https = h.clone() } }
                        _ => {} } }
                    let snap = Vals::fresh(fx, &t)?.snapshot();
                    v.intact(&snap).map_err(|e| format!("a part of a decoded message is not what was written: {e}"))?;
                    if form == 6 { drop(sources); return judge(&build(fx, kind, v), "built from the parts") }
                    let m = build(fx, kind, v.clone());
                    judge(&m, "built from the parts")?;
                    for (s, d) in &sources { if s.to_vec() != *d { return Err("a source message writes another document after its parts were used".into()) } }
                    drop(m);
                    for (s, d) in &sources { if s.to_vec() != *d { return Err("a source message writes another document after the built message was dropped".into()) } }
                    v.intact(&snap)?;
                    judge(&build(fx, kind, v), "built again from the parts")
                }
            }
        });
    });
    fails.flush(ctx, &sp);
    sp.sample_str(|| format!("{} from value set 1, {}", BUILD_KINDS[7], FORMS[3]));
    sp.done(true, &format!("4 value sets x {} constructor kinds x {} ownership forms", BUILD_KINDS.len(), FORMS.len()));
}

fn main() {
    let ctx = Ctx::new("C11", "exploration");
    // child-process mode of environment.timezone: print the subject observations and leave
    let args: Vec<String> = std::env::args().collect();
    // child-process mode of history.process: the named operations first, then the subject observations
    if let Some(pos) = args.iter().position(|a| a == "--c11-first-operation") {
        let which: Vec<usize> = args.get(pos + 1).map(|s| s.split(',').filter_map(|x| x.parse().ok()).collect()).unwrap_or_default();
        print!("{}", first_op_child(&ctx, &which));
        return;
    }
    if std::env::args().any(|a| a == "--c11-subject-dump") {
        let fx = Fx::load(&ctx);
        print!("{}", subject_dump(&Shared::load(&fx)));
        return;
    }
    // a Trace-level logger that formats every record: the library's log statements run during all parses
    if log::set_logger(&TRACE_LOG).is_ok() { log::set_max_level(log::LevelFilter::Trace) }
    ctx.assume("protocol-valid field values: handles [-_A-Za-z0-9/]{1,255} (RFC 8183 pattern; the empty handle the pattern would admit is refused by the library's own FromStr and left out); tags and class names xsd:token over printable ASCII and DEL, class names non-empty, at most 1024 characters; URIs as admitted by uri::Rsync / uri::Https with RFC 3986 characters and every letter case of scheme, authority and path, service URIs built through the public ServiceUri::Https / ServiceUri::Http variants (http scheme in every letter case) as well as through FromStr / TryFrom; resource sets in canonical form built by FromStr / all() / empty() (resources.routes.* and prov.resource_routes: built through every public construction route, from block lists in any order, overlapping or touching, up to both ends of the number space); not-after times with whole seconds in years 1..9999 (fractional seconds are a separately named oracle); object contents of any length including 0 (RFC 8181 base64 = xsd:base64Binary without minLength); ID certificates non-empty");
    ctx.assume("non-ASCII field values are outside the property (rejected by ascii_into by design)");
    ctx.assume("quick-xml, base64, chrono and bcder are trusted as libraries; the well-formedness verdict comes from the checker in this file, quick-xml's raw reader is only a second opinion");
    let t0 = std::time::Instant::now();
    let cpu = || { let mut ts = libc::timespec { tv_sec: 0, tv_nsec: 0 }; unsafe { libc::clock_gettime(libc::CLOCK_PROCESS_CPUTIME_ID, &mut ts); } ts.tv_sec as f64 + ts.tv_nsec as f64 * 1e-9 };
    let lap = |what: &str| if std::env::var_os("C11_TIMING").is_some() { eprintln!("[timing] {what}: {:.1}s wall, {:.1}s process CPU", t0.elapsed().as_secs_f64(), cpu()) };
    wf_selftest(&ctx);
    let fx = Fx::load(&ctx);
    lap("fixtures");
    space_publication(&ctx, &fx); lap("publication");
    space_provisioning(&ctx, &fx); lap("provisioning");
    space_resource_routes(&ctx, &fx); lap("resource routes");
    space_idexchange(&ctx, &fx); lap("idexchange");
    space_scale(&ctx, &fx); lap("scale");
    space_seeds(&ctx, &fx); lap("seeds");
    space_grammar(&ctx, &fx); lap("grammar");
    space_values(&ctx, &fx); lap("values");
    space_parsers(&ctx, &fx); lap("parsers");
    // sequences, environment, call parameters, shared values: a panic of the explorer code here can only come
    // from the library misbehaving on the menu messages (each group is seen to complete on the unchanged tree)
    let sh = Shared::load(&fx);
    let groups: [(&str, fn(&Ctx, &Shared)); 7] = [("history", space_history), ("environment", space_environment), ("process", space_process_history), ("display", space_display), ("sinks", space_sinks),
        ("handed_out", space_handed_out), ("ownership", space_ownership)];
    for (name, f) in groups {
        if let Err(p) = guard(|| f(&ctx, &sh)) { ctx.fail(&format!("C11.{name}.nopanic"), format!("space group {name}"), format!("the explorer was stopped by a panic: {p}")) }
        lap(name);
    }
    ctx.assume(&format!("a Trace-level logger formatting every record was installed: {} of the library's log statements ran", if LOG_RECORDS.load(std::sync::atomic::Ordering::Relaxed) > 0 { "some" } else { "none" }));
    ctx.finish();
}
