//! C12 — URIs: parsed form is faithful, equality/hash agree, path algebra is
//! consistent.
//!
//! Spaces (all exhaustive over explicit finite alphabets):
//!  1. parse      : scheme-variant ++ tail, tail in SIGMA^{<=L}, offered to both
//!                  parsers; every accepted URI gets the unary oracles
//!                  (faithful text, accessors, parent).
//!  2. bytes      : every octet 0..=255 substituted/inserted at every position
//!                  of four seed URIs, and as join argument.
//!  3. rsync.pairs / https.pairs : all ordered pairs of the accepted sets up
//!                  to a stated tail length.
//!  4. rsync.join / https.join   : all (u, p), p in SIGMA^{<=K}.
//!  5. rsync.triples / https.triples : all triples of a denser small domain
//!                  (relation matrices computed by n^2 real calls, then every
//!                  triple with a true first premise is inspected).
//!  6. rsync.long / https.long  : LENGTH dimension - authority, module name and
//!                  path of every length 1..=80, 127-129, 255-257, 1023-1025
//!                  with one case flip at every position and in the scheme;
//!                  all pair and join laws and the unary oracles on them
//!                  (block / buffer sizes inside the library are invisible to
//!                  an alphabet-length bound).
//!  7. rsync.forms / https.forms : CONSTRUCTION-FORM dimension - every public
//!                  way to obtain a value (constructors, views into shared
//!                  buffers, clone, parent/join results, serde); every law
//!                  must answer as for the from_str operands.
//!  8. rsync.scale / https.scale : SCALE dimension - every measured length (authority,
//!                  module, one segment, number of segments) at 2^k-1, 2^k, 2^k+1 for
//!                  k = 6..=17, and (authority, module) pairs whose SUM crosses 2^8 /
//!                  2^16 while each part stays below; groups with flips, child, parent
//!                  and short URIs; all pair / join / unary laws.
//!  9. history.independent / history.recycled_buffer : SEQUENCES - every subject after
//!                  every predecessor on a new OS thread must observe what it observes as
//!                  the first evaluation of a thread; a predecessor's buffer recycled for
//!                  the subject (same address and length) must parse like from_slice.
//! 10. ownership : every operation under 11 ways of owning the octets (sole, live clone,
//!                  views into larger buffers, static, ...); co-owners stay unchanged.
//! 11. display.parameters : width / alignment / fill / flags / precision specs.
//!  "equal => same hash" is judged under three hashers everywhere: std DefaultHasher,
//!  an FxHash-style hasher, and a digest of the exact sequence of Hasher::write calls.
//!
//! The reference model works on the *text* only (documented grammar, split on
//! '/', ASCII lower-casing of scheme and authority); it never calls the
//! accessor, comparison or path functions of the library.
//!
//! What is demanded, clause by clause of the property:
//!  * accepted => text unchanged, accessors are the model's split of the text,
//!    only permitted characters, rsync: no empty/dot segments (`parse.*`,
//!    `accessors`). A parser that is *stricter* than the grammar (it rejects
//!    '@' and authorities "." / "..") is counted, not reported.
//!  * == <=> (scheme+authority lower-cased equal, rest equal); symmetric,
//!    reflexive, transitive; == => equal hash (`eq.*`).
//!  * join/parent results: text passes the model, accessors consistent with the
//!    text, from_slice(text) == result with the same authority (`*.valid`).
//!  * parent(u).is_parent_of(u); base.is_parent_of(join(base,p)) for p != ""
//!    (`parent.is_parent`, `join.beneath`); for https, which has no
//!    is_parent_of, the same relation on the text.
//!  * relative_to == Some("") <=> equal up to one trailing slash
//!    (`relative_to.empty`); Some(p), p != "" => other.join(p) == self
//!    (`relative_to.join`).
//!  * is_parent_of irreflexive, transitive, unchanged when either side is
//!    replaced by an == URI, and (because join must land beneath its base and
//!    a non-empty relative path must join back) equivalent to "lies strictly
//!    beneath under this equality" (`is_parent_of.*`).
//!  * `join.parent` (parent(join(u, one segment)) is u up to one trailing slash)
//!    comes from DESIGN.md / the doc comment of `parent`, not literally from the
//!    property text.

use std::collections::hash_map::DefaultHasher;
use std::collections::BTreeMap;
use std::hash::{Hash, Hasher};
use std::sync::atomic::{AtomicU64, Ordering as AtomicOrdering};
use std::sync::Mutex;
use rayon::prelude::*;
use rpki::uri::{Https, Rsync, Scheme};
use rpki_verif::engine::enumerate::{seq_at, seq_count};
use rpki_verif::{guard, hex, Ctx, Space};
use serde_json::json;

const SCHEMES: [&str; 8] = ["rsync://", "RSYNC://", "rSync://", "https://", "HTTPS://", "rsync:/", "http://", ""];
const SIGMA: [u8; 7] = [b'a', b'A', b'b', b'/', b'.', b':', b' '];

type Oc = BTreeMap<&'static str, u64>;
fn bump(m: &mut Oc, k: &'static str) { *m.entry(k).or_insert(0) += 1 }

/// Failures of one work item, handed to the Ctx in enumeration order so that
/// the printed witnesses do not depend on thread scheduling. At most ROW_CAP
/// failures per oracle and work item are rendered; the rest are only counted
/// (a broken relation would otherwise produce billions of strings).
static SUPPRESSED: AtomicU64 = AtomicU64::new(0);
const ROW_CAP: u32 = 16;
struct Fails { v: Vec<(&'static str, String, String)>, per: BTreeMap<&'static str, u32> }
impl Fails {
    fn new() -> Self { Fails { v: Vec::new(), per: BTreeMap::new() } }
    fn fail(&mut self, o: &'static str, w: &dyn Fn() -> String, d: impl FnOnce() -> String) {
        let c = self.per.entry(o).or_insert(0); *c += 1;
        if *c <= ROW_CAP { self.v.push((o, w(), d())) } else { SUPPRESSED.fetch_add(1, AtomicOrdering::Relaxed); }
    }
    fn check(&mut self, o: &'static str, w: &dyn Fn() -> String, f: impl FnOnce() -> Result<(), String>) -> bool {
        match guard(f) {
            Ok(Ok(())) => true,
            Ok(Err(d)) => { self.fail(o, w, || d); false }
            Err(p) => { self.fail(o, w, || p); false }
        }
    }
    fn flush(self, ctx: &Ctx) { for (o, w, d) in self.v { ctx.fail(o, w, d) } }
}
/// Runs f(i) for i in 0..n on all cores, in batches; failures are handed to
/// the Ctx sequentially in index order after each batch.
fn batched(ctx: &Ctx, n: usize, batch: usize, f: impl Fn(usize, &mut Fails) + Sync) {
    let mut lo = 0;
    while lo < n {
        let hi = (lo + batch).min(n);
        let out: Vec<Fails> = (lo..hi).into_par_iter().map(|i| { let mut fl = Fails::new(); f(i, &mut fl); fl }).collect();
        for v in out { v.flush(ctx) }
        lo = hi;
    }
}

/// Opt-in progress line on stderr (VERIF_TIMING=1); never part of the evidence.
fn lap(t0: &std::time::Instant, what: &str) {
    if std::env::var_os("VERIF_TIMING").is_some() { eprintln!("[timing] {:>8.2}s  {what}", t0.elapsed().as_secs_f64()) }
}

// ------------------------------------------------------------------ model

/// Permitted characters: printable ASCII except SPACE " # < > ? [ \ ] ^ ` { | }
/// (uri.rs, comment above `Rsync`) and except '@'. The comment does not list '@', but the
/// simplified URI form the types implement has no userinfo part ("rsync://authority/module/path",
/// authority = host[:port]) and the pinned tree refuses it in every position; it is the one
/// printable character on which the comment and the allow-list differ, and a range bound moved by
/// one (`b'A'..=b'Z'` -> `b'@'..=b'Z'`) is exactly the kind of change the check has to see
/// (seeded C12-18). A tree that accepted '@' would make `authority()` return "user@host".
fn permitted(b: u8) -> bool {
    b > 0x20 && b < 0x7f && !b"\"#<>?[\\]^`{|}@".contains(&b)
}

fn lower(b: &[u8]) -> Vec<u8> { b.iter().map(|c| c.to_ascii_lowercase()).collect() }
/// Renders octets for witnesses. Texts of more than 200 octets have their runs of the alternating
/// two-letter pattern (>= 16 octets, same case) written as {x:N} = N octets x,y,x,y,… starting with
/// x (y = the other letter of a/b, A/B), and runs of "a/" as {a/:N}; everything else verbatim.
fn s(b: &[u8]) -> String {
    if b.len() <= 200 { return String::from_utf8_lossy(b).into_owned() }
    let mut out = String::new(); let mut i = 0;
    let other = |c: u8| match c { b'a' => b'b', b'b' => b'a', b'A' => b'B', b'B' => b'A', _ => 0 };
    while i < b.len() {
        let mut j = i;
        if other(b[i]) != 0 { j = i + 1; while j < b.len() && b[j] == other(b[j - 1]) { j += 1 } }
        if j - i >= 16 { out.push_str(&format!("{{{}:{}}}", b[i] as char, j - i)); i = j; continue }
        let mut k = i; while k + 1 < b.len() && b[k] == b'a' && b[k + 1] == b'/' { k += 2 }
        if k - i >= 16 { out.push_str(&format!("{{a/:{}}}", k - i)); i = k; continue }
        out.push_str(&String::from_utf8_lossy(&b[i..i + 1])); i += 1;
    }
    out
}

#[derive(Clone, Copy, Debug)]
struct RParts<'a> { scheme: &'a [u8], authority: &'a [u8], module: &'a [u8], path: &'a [u8] }

/// rsync://authority/module/path — authority and module non-empty, no empty
/// path segment other than the one a trailing slash produces, no "." / ".."
/// segment (the module name is a path segment too).
fn model_rsync(t: &[u8]) -> Result<RParts<'_>, &'static str> {
    if !t.iter().all(|&b| permitted(b)) { return Err("forbidden character") }
    if t.len() < 8 || !t[..8].eq_ignore_ascii_case(b"rsync://") { return Err("scheme") }
    let rest = &t[8..];
    let i = rest.iter().position(|&b| b == b'/').ok_or("no module")?;
    let authority = &rest[..i];
    if authority.is_empty() { return Err("empty authority") }
    let rest2 = &rest[i + 1..];
    let j = rest2.iter().position(|&b| b == b'/').ok_or("module not terminated by a slash")?;
    let module = &rest2[..j];
    if module.is_empty() { return Err("empty module") }
    if module == b"." || module == b".." { return Err("dot module") }
    let path = &rest2[j + 1..];
    if !path.is_empty() {
        let mut it = path.split(|&b| b == b'/').peekable();
        while let Some(seg) = it.next() {
            if seg.is_empty() && it.peek().is_some() { return Err("empty segment") }
            if seg == b"." || seg == b".." { return Err("dot segment") }
        }
    }
    Ok(RParts { scheme: &t[..8], authority, module, path })
}

#[derive(Clone, Copy, Debug)]
struct HParts<'a> { scheme: &'a [u8], authority: &'a [u8], path: &'a [u8] }

/// https://authority[/path] — the path is everything from the first slash
/// after the authority (inclusive) to the end.
fn model_https(t: &[u8]) -> Result<HParts<'_>, &'static str> {
    if !t.iter().all(|&b| permitted(b)) { return Err("forbidden character") }
    if t.len() < 8 || !t[..8].eq_ignore_ascii_case(b"https://") { return Err("scheme") }
    let rest = &t[8..];
    let i = rest.iter().position(|&b| b == b'/').unwrap_or(rest.len());
    Ok(HParts { scheme: &t[..8], authority: &rest[..i], path: &rest[i..] })
}

/// Equality key: scheme and authority lower-cased, the rest exact.
fn rsync_prefix_key(p: &RParts) -> Vec<u8> {
    let mut k = lower(p.scheme); k.extend(lower(p.authority)); k.push(b'/'); k.extend_from_slice(p.module); k.push(b'/'); k
}
fn https_prefix_key(p: &HParts) -> Vec<u8> { let mut k = lower(p.scheme); k.extend(lower(p.authority)); k }

/// Path with at most one trailing slash removed.
fn strip1(path: &[u8]) -> &[u8] { if path.last() == Some(&b'/') { &path[..path.len() - 1] } else { path } }
/// Path as a directory prefix: "" stays "", otherwise exactly one trailing slash.
fn rsync_dir(path: &[u8]) -> Vec<u8> { let mut d = path.to_vec(); if !d.is_empty() && d.last() != Some(&b'/') { d.push(b'/') } d }
fn https_dir(path: &[u8]) -> Vec<u8> { let mut d = path.to_vec(); if d.last() != Some(&b'/') { d.push(b'/') } d }

/// b lies strictly beneath a (text model).
fn beneath(a_prefix: &[u8], a_dir: &[u8], b_prefix: &[u8], b_path: &[u8]) -> bool {
    a_prefix == b_prefix && b_path.len() > a_dir.len() && b_path.starts_with(a_dir)
}

/// An FxHash-style hasher: every write call is consumed in words of its own chunking, so the
/// result depends on how the input is split across calls.
struct FxLike(u64);
impl FxLike { fn add(&mut self, w: u64) { self.0 = (self.0.rotate_left(5) ^ w).wrapping_mul(0x51_7c_c1_b7_27_22_0a_95) } }
impl Hasher for FxLike {
    fn write(&mut self, mut b: &[u8]) {
        while b.len() >= 8 { self.add(u64::from_le_bytes(b[..8].try_into().unwrap())); b = &b[8..] }
        if b.len() >= 4 { self.add(u32::from_le_bytes(b[..4].try_into().unwrap()) as u64); b = &b[4..] }
        for &x in b { self.add(x as u64) }
    }
    fn finish(&self) -> u64 { self.0 }
}
/// A digest of the exact SEQUENCE OF WRITE CALLS (length of every call, then its octets): two
/// values feed a Hasher identically iff these digests agree (up to a 64-bit FNV collision).
struct Calls(u64);
impl Calls { fn byte(&mut self, x: u8) { self.0 = (self.0 ^ x as u64).wrapping_mul(0x100_0000_01b3) } }
impl Hasher for Calls {
    fn write(&mut self, b: &[u8]) { for x in (b.len() as u64).to_le_bytes() { self.byte(x) } for &x in b { self.byte(x) } }
    fn finish(&self) -> u64 { self.0 }
}
/// (std DefaultHasher, FxHash-style, digest of the write-call sequence)
type H3 = (u64, u64, u64);
fn h<T: Hash>(t: &T) -> H3 {
    let mut x = DefaultHasher::new(); t.hash(&mut x);
    let mut y = FxLike(0); t.hash(&mut y);
    let mut z = Calls(0xcbf2_9ce4_8422_2325); t.hash(&mut z);
    (x.finish(), y.finish(), z.finish())
}
/// Which of the three hashers tell two values apart (for equal values none may).
fn hash_diff(a: H3, b: H3) -> Option<&'static str> {
    if a.0 != b.0 { Some("std DefaultHasher") } else if a.2 != b.2 { Some("the sequence of Hasher::write calls (their lengths and octets)") } else if a.1 != b.1 { Some("an FxHash-style hasher") } else { None }
}

// ------------------------------------------------------- validity of a value

/// "is itself a valid URI that re-parses to an equal value with the same
/// authority": the value's text passes the grammar model, its accessors are
/// the model's split of that text, and from_slice(text) == value (both ways,
/// equal hash, same authority/module/path).
fn valid_rsync(r: &Rsync) -> Result<(), String> {
    let text = r.as_slice().to_vec();
    let m = model_rsync(&text).map_err(|e| format!("result text {:?} is not a valid rsync URI: {e}", s(&text)))?;
    if r.authority().as_bytes() != m.authority || r.module_name().as_bytes() != m.module || r.path().as_bytes() != m.path {
        return Err(format!("accessors of {:?} say authority={:?} module={:?} path={:?}, text says {:?}/{:?}/{:?}",
            s(&text), r.authority(), r.module_name(), r.path(), s(m.authority), s(m.module), s(m.path)));
    }
    let back = Rsync::from_slice(&text).map_err(|e| format!("result {:?} does not re-parse: {e}", s(&text)))?;
    if !(back == *r) || !(*r == back) { return Err(format!("re-parsed {:?} is not == the result", s(&text))) }
    if let Some(which) = hash_diff(h(&back), h(r)) { return Err(format!("re-parsed {:?} differs from the result under {which}", s(&text))) }
    if back.authority() != r.authority() || back.module_name() != r.module_name() || back.path() != r.path() {
        return Err(format!("re-parsed {:?}: authority/module/path {:?}/{:?}/{:?} vs result's {:?}/{:?}/{:?}", s(&text),
            back.authority(), back.module_name(), back.path(), r.authority(), r.module_name(), r.path()));
    }
    Ok(())
}

fn valid_https(r: &Https) -> Result<(), String> {
    let text = r.as_slice().to_vec();
    let m = model_https(&text).map_err(|e| format!("result text {:?} is not a valid https URI: {e}", s(&text)))?;
    let back = Https::from_slice(&text).map_err(|e| format!("result {:?} does not re-parse: {e}", s(&text)))?;
    if back.authority() != r.authority() {
        return Err(format!("result {:?} reports authority {:?} but re-parses with authority {:?}", s(&text), r.authority(), back.authority()));
    }
    if !(back == *r) || !(*r == back) { return Err(format!("re-parsed {:?} is not == the result", s(&text))) }
    if let Some(which) = hash_diff(h(&back), h(r)) { return Err(format!("re-parsed {:?} differs from the result under {which}", s(&text))) }
    if r.authority().as_bytes() != m.authority || r.path().as_bytes() != m.path || back.path() != r.path() {
        return Err(format!("accessors of {:?} say authority={:?} path={:?}, text says {:?} {:?}", s(&text), r.authority(), r.path(), s(m.authority), s(m.path)));
    }
    Ok(())
}

// ------------------------------------------------------------ unary oracles

/// All oracles about one accepted rsync URI. `wit` renders the input.
fn unary_rsync(fl: &mut Fails, text: &[u8], u: &Rsync, wit: &dyn Fn() -> String, oc: &mut Oc) {
    // accepted => grammar
    let m = match model_rsync(text) {
        Ok(m) => m,
        Err(e) => { fl.fail("C12.rsync.parse.sound", &wit, || format!("accepted although the grammar forbids it: {e}")); return }
    };
    fl.check("C12.rsync.parse.faithful", wit, || {
        if u.as_slice() != text || u.as_str().as_bytes() != text || u.to_bytes().as_ref() != text || u.to_string().as_bytes() != text {
            return Err(format!("text changed to {:?}", u.as_str()))
        }
        Ok(())
    });
    fl.check("C12.rsync.accessors", wit, || {
        let mut re = m.scheme.to_vec();
        re.extend_from_slice(u.authority().as_bytes()); re.push(b'/');
        re.extend_from_slice(u.module_name().as_bytes()); re.push(b'/');
        re.extend_from_slice(u.path().as_bytes());
        if re != text { return Err(format!("scheme+authority+module+path recompose to {:?}", s(&re))) }
        if u.authority().as_bytes() != m.authority || u.module_name().as_bytes() != m.module || u.path().as_bytes() != m.path {
            return Err(format!("authority={:?} module={:?} path={:?}", u.authority(), u.module_name(), u.path()))
        }
        let modlen = 8 + m.authority.len() + 1 + m.module.len() + 1;
        if u.module().as_bytes() != &text[..modlen] { return Err(format!("module()={:?}", u.module())) }
        if u.path_bytes() != m.path { return Err("path_bytes differs from path".into()) }
        if u.canonical_authority().as_bytes() != lower(m.authority) { return Err(format!("canonical_authority={:?}", u.canonical_authority())) }
        if u.path_is_dir() != (m.path.is_empty() || m.path.ends_with(b"/")) { return Err("path_is_dir".into()) }
        // ends_with: every suffix of the path (up to 5 octets), the same with the first octet's case
        // flipped / dropped, and a few fixed extensions, against the model's path
        let mut exts: Vec<Vec<u8>> = vec![b"".to_vec(), b".cer".to_vec(), b"/".to_vec(), b"a".to_vec(), b"A".to_vec(), b"//".to_vec()];
        for k in 1..=m.path.len().min(5) {
            let suf = m.path[m.path.len() - k..].to_vec();
            let mut f = suf.clone(); f[0] ^= 0x20; exts.push(f);
            let mut longer = vec![b'x']; longer.extend_from_slice(&suf); exts.push(longer);
            exts.push(suf);
        }
        { let mut whole = b"/".to_vec(); whole.extend_from_slice(m.path); exts.push(whole) }   // reaches into the module separator
        for e in exts {
            let Ok(es) = std::str::from_utf8(&e) else { continue };
            if u.ends_with(es) != m.path.ends_with(&e) { return Err(format!("ends_with({es:?}) = {}, but the path is {:?}", u.ends_with(es), s(m.path))) }
        }
        // the scheme value of this type
        let sch = Scheme::Rsync;
        if !sch.is_rsync() || sch.is_https() || sch.as_str() != "rsync" { return Err("Scheme::Rsync predicates".into()) }
        if sch.into_string() != format!("{sch}") || sch.into_string() != format!("{}://", sch.as_str()) { return Err(format!("Scheme::into_string() = {:?}", sch.into_string())) }
        if !m.scheme.eq_ignore_ascii_case(sch.into_string().as_bytes()) { return Err(format!("scheme text {:?} vs Scheme::Rsync {:?}", s(m.scheme), sch.into_string())) }
        Ok(())
    });
    fl.check("C12.rsync.eq.reflexive", wit, || {
        let c = u.clone();
        if !(*u == c) || h(u) != h(&c) { return Err("a URI is not == its clone or hashes differently".into()) }
        Ok(())
    });
    // parent
    match guard(|| u.parent()) {
        Err(p) => fl.fail("C12.rsync.parent.valid", &wit, || p),
        Ok(None) => bump(oc, "rsync-parent-none"),
        Ok(Some(p)) => {
            bump(oc, "rsync-parent-some");
            fl.check("C12.rsync.parent.valid", wit, || valid_rsync(&p));
            fl.check("C12.rsync.parent.is_parent", wit, || {
                if !p.is_parent_of(u) { return Err(format!("parent {:?} is not is_parent_of its child", p.as_str())) }
                // text model as well: the child lies beneath the parent
                let pm = model_rsync(p.as_slice()).map_err(|e| e.to_string())?;
                if !beneath(&rsync_prefix_key(&pm), &rsync_dir(pm.path), &rsync_prefix_key(&m), m.path) {
                    return Err(format!("child does not lie beneath parent {:?}", p.as_str()))
                }
                Ok(())
            });
        }
    }
}

fn unary_https(fl: &mut Fails, text: &[u8], u: &Https, wit: &dyn Fn() -> String, oc: &mut Oc) {
    let m = match model_https(text) {
        Ok(m) => m,
        Err(e) => { fl.fail("C12.https.parse.sound", &wit, || format!("accepted although the grammar forbids it: {e}")); return }
    };
    fl.check("C12.https.parse.faithful", wit, || {
        if u.as_slice() != text || u.as_str().as_bytes() != text || u.to_string().as_bytes() != text {
            return Err(format!("text changed to {:?}", u.as_str()))
        }
        Ok(())
    });
    fl.check("C12.https.accessors", wit, || {
        if !u.scheme().is_https() || !m.scheme[..5].eq_ignore_ascii_case(u.scheme().as_str().as_bytes()) { return Err("scheme()".into()) }
        let mut re = m.scheme.to_vec();
        re.extend_from_slice(u.authority().as_bytes());
        re.extend_from_slice(u.path().as_bytes());
        if re != text { return Err(format!("scheme+authority+path recompose to {:?}", s(&re))) }
        if u.authority().as_bytes() != m.authority || u.path().as_bytes() != m.path {
            return Err(format!("authority={:?} path={:?}", u.authority(), u.path()))
        }
        if u.canonical_authority().as_bytes() != lower(m.authority) { return Err(format!("canonical_authority={:?}", u.canonical_authority())) }
        if u.path_is_dir() != (m.path.is_empty() || m.path.ends_with(b"/")) { return Err("path_is_dir".into()) }
        let sch = u.scheme();
        if sch != Scheme::Https || sch == Scheme::Rsync || sch.is_rsync() || !sch.is_https() || sch.as_str() != "https" { return Err("scheme() predicates".into()) }
        if sch.into_string() != format!("{sch}") || sch.into_string() != format!("{}://", sch.as_str()) { return Err(format!("Scheme::into_string() = {:?}", sch.into_string())) }
        if !m.scheme.eq_ignore_ascii_case(sch.into_string().as_bytes()) { return Err(format!("scheme text {:?} vs scheme() {:?}", s(m.scheme), sch.into_string())) }
        Ok(())
    });
    fl.check("C12.https.eq.reflexive", wit, || {
        let c = u.clone();
        if !(*u == c) || h(u) != h(&c) { return Err("a URI is not == its clone or hashes differently".into()) }
        Ok(())
    });
    if m.authority.is_empty() { bump(oc, "https-empty-authority-accepted") }
    match guard(|| u.parent()) {
        Err(p) => fl.fail("C12.https.parent.valid", &wit, || p),
        Ok(None) => bump(oc, "https-parent-none"),
        Ok(Some(p)) => {
            bump(oc, "https-parent-some");
            fl.check("C12.https.parent.valid", wit, || valid_https(&p));
            fl.check("C12.https.parent.is_parent", wit, || {
                let pm = model_https(p.as_slice()).map_err(|e| e.to_string())?;
                if !beneath(&https_prefix_key(&pm), &https_dir(pm.path), &https_prefix_key(&m), m.path) {
                    return Err(format!("child does not lie beneath parent {:?}", p.as_str()))
                }
                Ok(())
            });
        }
    }
}

// ------------------------------------------------------------- stored URIs

struct RU { uri: Rsync, text: Vec<u8>, pkey: Vec<u8>, path: Vec<u8>, dir: Vec<u8>, hash: H3, rep: usize }
struct HU { uri: Https, text: Vec<u8>, pkey: Vec<u8>, auth_lc: Vec<u8>, path: Vec<u8>, hash: H3 }

fn mk_ru(texts: &[Vec<u8>]) -> Vec<RU> {
    let mut v: Vec<RU> = texts.iter().map(|t| {
        let uri = Rsync::from_slice(t).expect("stored URI was accepted before");
        let m = model_rsync(t).expect("stored URI passed the model before");
        RU { hash: guard(|| h(&uri)).unwrap_or((0, 0, 0)), uri, text: t.clone(), pkey: rsync_prefix_key(&m), path: m.path.to_vec(), dir: rsync_dir(m.path), rep: 0 }
    }).collect();
    // class representative = first member (enumeration order) with the same key
    let mut first: BTreeMap<(Vec<u8>, Vec<u8>), usize> = BTreeMap::new();
    for i in 0..v.len() { let k = (v[i].pkey.clone(), v[i].path.clone()); let r = *first.entry(k).or_insert(i); v[i].rep = r; }
    v
}
fn mk_hu(texts: &[Vec<u8>]) -> Vec<HU> {
    texts.iter().map(|t| {
        let uri = Https::from_slice(t).expect("stored URI was accepted before");
        let m = model_https(t).expect("stored URI passed the model before");
        HU { hash: guard(|| h(&uri)).unwrap_or((0, 0, 0)), uri, text: t.clone(), pkey: https_prefix_key(&m), auth_lc: lower(m.authority), path: m.path.to_vec() }
    }).collect()
}

/// All stored URIs with tail length <= l, in enumeration order.
fn upto(by_len: &BTreeMap<usize, Vec<Vec<u8>>>, l: usize) -> Vec<Vec<u8>> {
    by_len.iter().filter(|(k, _)| **k <= l).flat_map(|(_, v)| v.iter().cloned()).collect()
}
fn sizes(by_len: &BTreeMap<usize, Vec<Vec<u8>>>) -> serde_json::Value {
    json!(by_len.iter().map(|(k, v)| (k.to_string(), v.len())).collect::<BTreeMap<_, _>>())
}

fn all_strings(alpha: &[u8], max_len: u32) -> Vec<Vec<u8>> {
    let k = alpha.len() as u64; let mut idx = Vec::new();
    (0..seq_count(k, max_len)).map(|i| { seq_at(k, max_len, i, &mut idx); idx.iter().map(|&x| alpha[x]).collect() }).collect()
}

type Stored = Mutex<Vec<(usize, u64, usize, Vec<u8>)>>;
fn group(m: Stored) -> BTreeMap<usize, Vec<Vec<u8>>> {
    let mut v = m.into_inner().unwrap(); v.sort();
    let mut out: BTreeMap<usize, Vec<Vec<u8>>> = BTreeMap::new();
    for (l, _, _, t) in v { out.entry(l).or_default().push(t) }
    out
}

// ------------------------------------------------- pair and join law runners

/// All ordered pairs of `ru` against the text model (see the `rsync.pairs` rule).
fn rsync_pairs(ctx: &Ctx, sp: &Space, ru: &[RU]) {
    let n = ru.len();
    batched(ctx, n, 2048, |i, fl| {
        let a = &ru[i];
        let mut oc: Oc = BTreeMap::new(); let mut nt = 0u64;
        let (mut c_ident, mut c_eq, mut c_uneq, mut c_none, mut c_empty, mut c_path, mut c_par) = (0u64, 0u64, 0u64, 0u64, 0u64, 0u64, 0u64);
        for j in 0..n {
            let b = &ru[j];
            let wit = || format!("self={} other={}", s(&a.text), s(&b.text));
            let obs = guard(|| {
                let eq = a.uri == b.uri; let eq_rev = b.uri == a.uri;
                let rel = a.uri.relative_to(&b.uri);
                let par = a.uri.is_parent_of(&b.uri);
                let par_rep = ru[a.rep].uri.is_parent_of(&ru[b.rep].uri);
                (eq, eq_rev, rel, par, par_rep)
            });
            let (eq, eq_rev, rel, par, par_rep) = match obs { Ok(o) => o, Err(p) => { fl.fail("C12.rsync.pair.nopanic", &wit, || p); continue } };
            let m_eq = a.pkey == b.pkey && a.path == b.path;
            let m_slash_eq = a.pkey == b.pkey && strip1(&a.path) == strip1(&b.path);
            let m_par = beneath(&a.pkey, &a.dir, &b.pkey, &b.path);
            if eq != m_eq { fl.fail("C12.rsync.eq.model", &wit, || format!("== is {eq}, text model (scheme+authority case-insensitive, rest exact) says {m_eq}")) }
            if eq != eq_rev { fl.fail("C12.rsync.eq.symmetric", &wit, || format!("a==b is {eq}, b==a is {eq_rev}")) }
            if eq { if let Some(which) = hash_diff(a.hash, b.hash) { fl.fail(if which.starts_with("std") { "C12.rsync.eq.hash" } else { "C12.rsync.eq.hash.calls" }, &wit, || format!("equal URIs differ under {which}")) } }
            let rel_empty = rel == Some("");
            if rel_empty != m_slash_eq {
                fl.fail("C12.rsync.relative_to.empty", &wit, || format!("relative_to = {rel:?}; equal up to one trailing slash: {m_slash_eq}"));
            }
            if let Some(p) = rel { if !p.is_empty() {
                fl.check("C12.rsync.relative_to.join", &wit, || {
                    let back = b.uri.join(p.as_bytes()).map_err(|e| format!("relative_to = Some({p:?}) but other.join fails: {e}"))?;
                    if !(back == a.uri) { return Err(format!("relative_to = Some({p:?}) but other.join gives {:?} which is != self", back.as_str())) }
                    Ok(())
                });
            }}
            if par && eq { fl.fail("C12.rsync.is_parent_of.irreflexive", &wit, || "is_parent_of holds between equal URIs".into()) }
            if par != m_par { fl.fail("C12.rsync.is_parent_of.model", &wit, || format!("self.is_parent_of(other) = {par}; text model (other lies beneath self under this equality) says {m_par}")) }
            if par != par_rep {
                fl.fail("C12.rsync.is_parent_of.eq_invariant", &wit, || format!("is_parent_of = {par} but {par_rep} for the equal URIs {} / {}", s(&ru[a.rep].text), s(&ru[b.rep].text)));
            }
            if i != j && (m_eq || rel.is_some() || par) { nt += 1 }
            if eq { if i == j { c_ident += 1 } else { c_eq += 1 } } else { c_uneq += 1 }
            match rel { None => c_none += 1, Some("") => c_empty += 1, Some(_) => c_path += 1 }
            if par { c_par += 1 }
        }
        for (k, v) in [("identical", c_ident), ("equal-different-text", c_eq), ("unequal", c_uneq), ("relative_to-none", c_none),
                       ("relative_to-empty", c_empty), ("relative_to-path", c_path), ("is-parent", c_par)] { if v > 0 { oc.insert(k, v); } }
        sp.evals(n as u64); sp.nontrivial(nt); sp.merge_outcomes(&oc);
    });
}

/// All ordered pairs of `hu` against the text model (see the `https.pairs` rule).
fn https_pairs(ctx: &Ctx, sp: &Space, hu: &[HU]) {
    let n = hu.len();
    batched(ctx, n, 2048, |i, fl| {
        let a = &hu[i];
        let mut oc: Oc = BTreeMap::new(); let mut nt = 0u64;
        let (mut c_ident, mut c_eq, mut c_auth, mut c_uneq) = (0u64, 0u64, 0u64, 0u64);
        for j in 0..n {
            let b = &hu[j];
            let wit = || format!("a={} b={}", s(&a.text), s(&b.text));
            let obs = guard(|| (a.uri == b.uri, b.uri == a.uri, a.uri.eq_authority(&b.uri)));
            let (eq, eq_rev, eqa) = match obs { Ok(o) => o, Err(p) => { fl.fail("C12.https.pair.nopanic", &wit, || p); continue } };
            let m_eq = a.pkey == b.pkey && a.path == b.path;
            if eq != m_eq { fl.fail("C12.https.eq.model", &wit, || format!("== is {eq}, text model says {m_eq}")) }
            if eq != eq_rev { fl.fail("C12.https.eq.symmetric", &wit, || format!("a==b is {eq}, b==a is {eq_rev}")) }
            if eq { if let Some(which) = hash_diff(a.hash, b.hash) { fl.fail(if which.starts_with("std") { "C12.https.eq.hash" } else { "C12.https.eq.hash.calls" }, &wit, || format!("equal URIs differ under {which}")) } }
            if eqa != (a.auth_lc == b.auth_lc) { fl.fail("C12.https.eq_authority", &wit, || format!("eq_authority = {eqa}")) }
            if i != j && (m_eq || a.auth_lc == b.auth_lc) { nt += 1 }
            if eq { if i == j { c_ident += 1 } else { c_eq += 1 } } else if eqa { c_auth += 1 } else { c_uneq += 1 }
        }
        for (k, v) in [("identical", c_ident), ("equal-different-text", c_eq), ("same-authority-unequal", c_auth), ("unequal", c_uneq)] { if v > 0 { oc.insert(k, v); } }
        sp.evals(n as u64); sp.nontrivial(nt); sp.merge_outcomes(&oc);
    });
}

/// All (base, arg) joins (see the `rsync.join` rule).
fn rsync_joins(ctx: &Ctx, sp: &Space, rj: &[RU], args: &[Vec<u8>]) {
    let n = rj.len();
    batched(ctx, n, 2048, |i, fl| {
        let a = &rj[i];
        let mut oc: Oc = BTreeMap::new(); let mut nt = 0u64;
        for p in args {
            let wit = || format!("base={} arg={:?}", s(&a.text), s(p));
            let r = match guard(|| a.uri.join(p)) {
                Err(pn) => { fl.fail("C12.rsync.join.valid", &wit, || pn); continue }
                Ok(Err(_)) => {
                    // concatenation per the documentation
                    let mut cat = a.text.clone(); if !cat.ends_with(b"/") { cat.push(b'/') } cat.extend_from_slice(p);
                    bump(&mut oc, if model_rsync(&cat).is_ok() && !p.starts_with(b"/") { "rejected-though-concatenation-valid" } else { "rejected" });
                    continue
                }
                Ok(Ok(r)) => r,
            };
            if !fl.check("C12.rsync.join.valid", &wit, || valid_rsync(&r)) { continue }
            if p.is_empty() {
                bump(&mut oc, "empty-argument");
                fl.check("C12.rsync.join.empty", &wit, || if r == a.uri { Ok(()) } else { Err(format!("join with the empty path gave {:?}", r.as_str())) });
                continue
            }
            nt += 1; bump(&mut oc, "joined");
            let rm = model_rsync(r.as_slice()).expect("validated above");
            fl.check("C12.rsync.join.beneath", &wit, || {
                if !a.uri.is_parent_of(&r) { return Err(format!("base is not is_parent_of the result {:?}", r.as_str())) }
                if !beneath(&a.pkey, &a.dir, &rsync_prefix_key(&rm), rm.path) { return Err(format!("result {:?} does not lie beneath the base (text model)", r.as_str())) }
                Ok(())
            });
            fl.check("C12.rsync.relative_to.join", &wit, || {
                match r.relative_to(&a.uri) {
                    Some(q) if !q.is_empty() => {
                        let back = a.uri.join(q.as_bytes()).map_err(|e| format!("join of relative path {q:?} fails: {e}"))?;
                        if back == r { Ok(()) } else { Err(format!("base.join(result.relative_to(base) = {q:?}) = {:?} != result {:?}", back.as_str(), r.as_str())) }
                    }
                    _ => Ok(())   // only non-empty answers are constrained by this clause
                }
            });
            if !strip1(p).contains(&b'/') {
                bump(&mut oc, "single-segment");
                fl.check("C12.rsync.join.parent", &wit, || {
                    let par = r.parent().ok_or_else(|| format!("result {:?} has no parent", r.as_str()))?;
                    let pm = model_rsync(par.as_slice()).map_err(|e| e.to_string())?;
                    if rsync_prefix_key(&pm) != a.pkey || strip1(pm.path) != strip1(&a.path) {
                        return Err(format!("parent of the result is {:?}, not the base (up to one trailing slash)", par.as_str()))
                    }
                    Ok(())
                });
            }
        }
        sp.evals(args.len() as u64); sp.nontrivial(nt); sp.merge_outcomes(&oc);
    });
}

/// All (base, arg) joins (see the `https.join` rule).
fn https_joins(ctx: &Ctx, sp: &Space, hj: &[HU], args: &[Vec<u8>]) {
    let n = hj.len();
    batched(ctx, n, 2048, |i, fl| {
        let a = &hj[i];
        let a_dir = https_dir(&a.path);
        let mut oc: Oc = BTreeMap::new(); let mut nt = 0u64;
        for p in args {
            let wit = || format!("base={} arg={:?}", s(&a.text), s(p));
            let r = match guard(|| a.uri.join(p)) {
                Err(pn) => { fl.fail("C12.https.join.valid", &wit, || pn); continue }
                Ok(Err(_)) => { bump(&mut oc, if p.iter().all(|&b| permitted(b)) { "rejected-though-permitted" } else { "rejected" }); continue }
                Ok(Ok(r)) => r,
            };
            if a.path.is_empty() { bump(&mut oc, "base-without-path") }
            if !fl.check("C12.https.join.valid", &wit, || valid_https(&r)) { continue }
            let rm = model_https(r.as_slice()).expect("validated above");
            if p.is_empty() {
                bump(&mut oc, "empty-argument");
                fl.check("C12.https.join.empty", &wit, || {
                    if https_prefix_key(&rm) == a.pkey && strip1(rm.path) == strip1(&a.path) { Ok(()) }
                    else { Err(format!("join with the empty path gave {:?}", r.as_str())) }
                });
                continue
            }
            nt += 1; bump(&mut oc, "joined");
            // An argument made of slashes only names the base directory
            // itself; anything else must lie strictly beneath it.
            let strict = p.iter().any(|&b| b != b'/');
            fl.check("C12.https.join.beneath", &wit, || {
                let inside = https_prefix_key(&rm) == a.pkey && rm.path.starts_with(&a_dir) && (!strict || rm.path.len() > a_dir.len());
                if !inside { return Err(format!("result {:?} does not lie beneath the base (text model)", r.as_str())) }
                Ok(())
            });
            let seg = strip1(p);
            if !seg.contains(&b'/') && !seg.is_empty() {
                bump(&mut oc, "single-segment");
                fl.check("C12.https.join.parent", &wit, || {
                    let par = r.parent().ok_or_else(|| format!("result {:?} has no parent", r.as_str()))?;
                    let pm = model_https(par.as_slice()).map_err(|e| e.to_string())?;
                    if https_prefix_key(&pm) != a.pkey || strip1(pm.path) != strip1(&a.path) {
                        return Err(format!("parent of the result is {:?}, not the base (up to one trailing slash)", par.as_str()))
                    }
                    Ok(())
                });
            }
        }
        sp.evals(args.len() as u64); sp.nontrivial(nt); sp.merge_outcomes(&oc);
    });
}


// ------------------------------------------- history / ownership / call parameters

/// Everything observable about a parse result, every accessor under its own guard (a value
/// with stale indexes must show up as a different observation, not take the explorer down).
fn obs_rsync(r: Result<Result<Rsync, rpki::uri::Error>, String>) -> String {
    match r {
        Err(p) => format!("PANIC {p}"),
        Ok(Err(e)) => format!("err {e:?}"),
        Ok(Ok(u)) => {
            let g = |f: &dyn Fn() -> String| guard(f).unwrap_or_else(|p| format!("PANIC {p}"));
            format!("ok text={} authority={} module={} path={} dir={} hash={} parent={} join={} rel={}",
                g(&|| u.as_str().to_string()), g(&|| u.authority().to_string()), g(&|| u.module_name().to_string()), g(&|| u.path().to_string()),
                g(&|| u.path_is_dir().to_string()), g(&|| format!("{:?}", h(&u))), g(&|| format!("{:?}", u.parent().map(|p| p.to_string()))),
                g(&|| format!("{:?}", u.join(b"x/y").map(|p| p.to_string()))), g(&|| format!("{:?}", Rsync::from_slice(u.module().as_bytes()).ok().and_then(|m| u.relative_to(&m).map(|x| x.to_string())))))
        }
    }
}
fn obs_https(r: Result<Result<Https, rpki::uri::Error>, String>) -> String {
    match r {
        Err(p) => format!("PANIC {p}"),
        Ok(Err(e)) => format!("err {e:?}"),
        Ok(Ok(u)) => {
            let g = |f: &dyn Fn() -> String| guard(f).unwrap_or_else(|p| format!("PANIC {p}"));
            format!("ok text={} authority={} path={} dir={} hash={} parent={} join={}",
                g(&|| u.as_str().to_string()), g(&|| u.authority().to_string()), g(&|| u.path().to_string()), g(&|| u.path_is_dir().to_string()),
                g(&|| format!("{:?}", h(&u))), g(&|| format!("{:?}", u.parent().map(|p| p.to_string()))), g(&|| format!("{:?}", u.join(b"x/y").map(|p| p.to_string()))))
        }
    }
}

/// Runs `f` first thing on a brand-new OS thread (no thread-local of the library has been touched).
fn fresh_thread<T: Send>(f: impl FnOnce() -> T + Send) -> Result<T, String> {
    std::thread::scope(|sc| sc.spawn(f).join()).map_err(|_| "the evaluation thread died".to_string())
}

type Eval = Box<dyn Fn() -> String + Send + Sync>;

/// Ways to come to own the octets of a URI. Returns the Bytes to parse and what else must stay alive / unchanged.
const OWNER_FORMS: [&str; 11] = ["sole owner", "live clone", "clone dropped before", "to_bytes() result alive", "view at offset 0 of a larger buffer",
    "view in the middle of a larger buffer", "view at the end of a larger buffer", "view of a larger buffer that was dropped", "from_static", "frozen BytesMut", "Vec with spare capacity"];
fn owner_bytes(form: usize, t: &[u8]) -> (bytes::Bytes, Option<bytes::Bytes>) {
    use bytes::{Bytes, BytesMut};
    match form {
        4 => { let mut b = t.to_vec(); b.extend_from_slice(b"/tail"); let big = Bytes::from(b); (big.slice(..t.len()), Some(big)) }
        5 => { let mut b = b"xy".to_vec(); b.extend_from_slice(t); b.extend_from_slice(b"zz"); let big = Bytes::from(b); (big.slice(2..2 + t.len()), Some(big)) }
        6 => { let mut b = b"xy".to_vec(); b.extend_from_slice(t); let big = Bytes::from(b); (big.slice(2..), Some(big)) }
        7 => { let mut b = b"xy".to_vec(); b.extend_from_slice(t); b.extend_from_slice(b"zz"); let big = Bytes::from(b); (big.slice(2..2 + t.len()), None) }
        8 => (Bytes::from_static(Box::leak(t.to_vec().into_boxed_slice())), None),
        9 => (BytesMut::from(t).freeze(), None),
        10 => { let mut v = Vec::with_capacity(t.len() + 16); v.extend_from_slice(t); (Bytes::from(v), None) }
        _ => (Bytes::copy_from_slice(t), None),
    }
}

/// Model of `Display` under a format spec for a type whose text form is `canon`: the spec is either ignored or applied
/// to the WHOLE text (padding to `width` with one fill character; for text-carrying types a precision cuts the whole
/// text to its first `prec` characters). Anything else (e.g. padding or cutting a part of the text) is a different value's text.
fn display_spec_ok(out: &str, canon: &str, width: Option<usize>, prec: Option<usize>, align: char, may_truncate: bool) -> bool {
    if out == canon { return true }
    let mut cores: Vec<String> = vec![canon.to_string()];
    if let (true, Some(p)) = (may_truncate, prec) { cores.push(canon.chars().take(p).collect()) }
    for core in cores {
        let want_len = width.unwrap_or(0).max(core.chars().count());
        if out.chars().count() != want_len { continue }
        for fill in [' ', '0'] {
            for (pos, _) in out.match_indices(core.as_str()).chain(if core.is_empty() { vec![(0usize, "")] } else { vec![] }) {
                let (l, r) = (&out[..pos], &out[pos + core.len()..]);
                if !l.chars().all(|c| c == fill) || !r.chars().all(|c| c == fill) { continue }
                let (nl, nr) = (l.chars().count(), r.chars().count());
                let placed = match align { '<' => nl == 0, '>' => nr == 0, '^' => nl <= nr && nr - nl <= 1, _ => nl == 0 || nr == 0 };
                if placed { return true }
            }
        }
    }
    false
}
/// All renderings of `v` under width / alignment / fill / flag / precision specs. (spec text, output, width, precision, alignment)
fn display_renderings(v: &dyn std::fmt::Display, w: usize, p: usize) -> Vec<(String, String, Option<usize>, Option<usize>, char)> {
    vec![
        (format!("{{:{w}}}"), format!("{:1$}", v, w), Some(w), None, ' '),
        (format!("{{:<{w}}}"), format!("{:<1$}", v, w), Some(w), None, '<'),
        (format!("{{:^{w}}}"), format!("{:^1$}", v, w), Some(w), None, '^'),
        (format!("{{:>{w}}}"), format!("{:>1$}", v, w), Some(w), None, '>'),
        (format!("{{:0<{w}}}"), format!("{:0<1$}", v, w), Some(w), None, '<'),
        (format!("{{:0^{w}}}"), format!("{:0^1$}", v, w), Some(w), None, '^'),
        (format!("{{:0>{w}}}"), format!("{:0>1$}", v, w), Some(w), None, '>'),
        (format!("{{:0{w}}}"), format!("{:01$}", v, w), Some(w), None, ' '),
        (format!("{{:#{w}}}"), format!("{:#1$}", v, w), Some(w), None, ' '),
        (format!("{{:+{w}}}"), format!("{:+1$}", v, w), Some(w), None, ' '),
        (format!("{{:#}}"), format!("{:#}", v), None, None, ' '),
        (format!("{{:+}}"), format!("{:+}", v), None, None, ' '),
        (format!("{{:.{p}}}"), format!("{:.1$}", v, p), None, Some(p), ' '),
        (format!("{{:{w}.{p}}}"), format!("{:1$.2$}", v, w, p), Some(w), Some(p), ' '),
        (format!("{{:>{w}.{p}}}"), format!("{:>1$.2$}", v, w, p), Some(w), Some(p), '>'),
        (format!("{{:0^{w}.{p}}}"), format!("{:0^1$.2$}", v, w, p), Some(w), Some(p), '^'),
    ]
}

// --------------------------------------------------------------------- main


fn main() {
    let t0 = std::time::Instant::now();
    let ctx = Ctx::new("C12", "exploration");
    ctx.assume("the grammar in the doc comments of src/uri.rs (permitted characters; rsync://authority/module/path with non-empty authority and module, no empty or dot segments; https://authority[/path]) is the specification");
    ctx.assume("equal values must feed a Hasher the same sequence of write calls; this is judged with std DefaultHasher, an FxHash-style hasher that is sensitive to call chunking, and a digest of the call sequence itself (lengths and octets of every write)");

    // bounds per tier (tail lengths over the 7-symbol alphabet)
    let max_tail: u32 = ctx.tier.pick(7, 9);          // parse space
    let pair_r: usize = ctx.tier.pick(6, 7);           // rsync pairs
    let pair_h: usize = ctx.tier.pick(4, 5);           // https pairs
    let join_r: usize = ctx.tier.pick(5, 6);           // rsync join bases
    let join_h: usize = ctx.tier.pick(4, 5);           // https join bases
    let arg_len: u32 = ctx.tier.pick(4, 5);            // join arguments
    let tri_tail: u32 = ctx.tier.pick(8, 9);           // triples, 3-symbol alphabet
    let store_r = pair_r.max(join_r); let store_h = pair_h.max(join_h);   // (the forms spaces use shorter tails)

    // ---------------------------------------------------------------- 1. parse
    let sp = ctx.space("parse",
        "every scheme-variant (8) ++ tail over {a,A,b,/,.,:,SPACE} up to the length bound, offered to Rsync::from_slice and Https::from_slice; unary oracles (text, accessors, parent) on every accepted URI; non-trivial = texts accepted by one of the parsers (all texts are distinct by construction)");
    let total = seq_count(SIGMA.len() as u64, max_tail);
    let acc_r: Stored = Mutex::new(Vec::new());
    let acc_h: Stored = Mutex::new(Vec::new());
    let chunk = 1u64 << 13;
    batched(&ctx, total.div_ceil(chunk) as usize, 1024, |c, fl| {
        let lo = c as u64 * chunk; let hi = (lo + chunk).min(total);
        let mut oc: Oc = BTreeMap::new();
        let mut idx = Vec::new(); let mut text: Vec<u8> = Vec::new();
        let (mut st_r, mut st_h) = (Vec::new(), Vec::new());
        let mut nt = 0u64;
        for i in lo..hi {
            seq_at(SIGMA.len() as u64, max_tail, i, &mut idx);
            for (si, sch) in SCHEMES.iter().enumerate() {
                text.clear(); text.extend_from_slice(sch.as_bytes()); text.extend(idx.iter().map(|&x| SIGMA[x]));
                let t = &text[..];
                let wit = || format!("text={:?}", s(t));
                let mut accepted = false;
                match guard(|| Rsync::from_slice(t)) {
                    Err(p) => fl.fail("C12.rsync.parse.nopanic", &wit, || p),
                    Ok(Err(_)) => {
                        if model_rsync(t).is_ok() { bump(&mut oc, "rsync-rejected-though-grammatical") } else { bump(&mut oc, "rsync-rejected") }
                    }
                    Ok(Ok(u)) => {
                        bump(&mut oc, "rsync-accepted"); accepted = true;
                        unary_rsync(fl, t, &u, &wit, &mut oc);
                        if idx.len() <= store_r && model_rsync(t).is_ok() { st_r.push((idx.len(), i, si, text.clone())) }
                    }
                }
                match guard(|| Https::from_slice(t)) {
                    Err(p) => fl.fail("C12.https.parse.nopanic", &wit, || p),
                    Ok(Err(_)) => {
                        if model_https(t).is_ok() { bump(&mut oc, "https-rejected-though-grammatical") } else { bump(&mut oc, "https-rejected") }
                    }
                    Ok(Ok(u)) => {
                        bump(&mut oc, "https-accepted"); accepted = true;
                        unary_https(fl, t, &u, &wit, &mut oc);
                        if idx.len() <= store_h && model_https(t).is_ok() { st_h.push((idx.len(), i, si, text.clone())) }
                    }
                }
                if accepted { nt += 1 }
            }
        }
        sp.evals(2 * (hi - lo) * SCHEMES.len() as u64); sp.nontrivial(nt); sp.merge_outcomes(&oc);
        acc_r.lock().unwrap().extend(st_r); acc_h.lock().unwrap().extend(st_h);
    });
    let r_by_len = group(acc_r); let h_by_len = group(acc_h);
    sp.set("alphabet", json!("a A b / . : SPACE")); sp.set("scheme_variants", json!(SCHEMES));
    sp.set("rsync_accepted_by_tail_length", sizes(&r_by_len)); sp.set("https_accepted_by_tail_length", sizes(&h_by_len));
    sp.sample_str(|| "text=\"rsync://a/b/\" -> rsync accepted (authority a, module b, path \"\"), https rejected".into());
    sp.sample_str(|| "text=\"HTTPS://A:/.a\" -> https accepted (authority A:, path /.a), rsync rejected".into());
    sp.done(true, &format!("8 scheme variants x all tails of length <= {max_tail} over 7 symbols, both parsers")); lap(&t0, &sp.name);

    // ---------------------------------------------------------------- 2. bytes
    let sp = ctx.space("bytes",
        "every octet 0..=255 substituted for and inserted before every position of 4 seed URIs, offered to both parsers; and every octet as 1st/2nd octet of a join argument; non-trivial = octet/position combinations accepted by a parser or by join");
    {
        let seeds: [&[u8]; 4] = [b"rsync://host/module/path/x", b"RSYNC://h/m/", b"https://host/path/x", b"https://host"];
        let mut oc: Oc = BTreeMap::new(); let mut nt = 0u64;
        let mut fl = Fails::new();
        for seed in seeds { for pos in 0..=seed.len() { for b in 0..=255u8 { for ins in [false, true] {
            if !ins && pos == seed.len() { continue }
            let mut t = seed.to_vec();
            if ins { t.insert(pos, b) } else { t[pos] = b }
            let wit = || format!("hex={}", hex(&t));
            sp.evals(2);
            match guard(|| Rsync::from_slice(&t)) {
                Err(p) => fl.fail("C12.rsync.parse.nopanic", &wit, || p),
                Ok(Err(_)) => bump(&mut oc, "rejected"),
                Ok(Ok(u)) => { bump(&mut oc, "rsync-accepted"); nt += 1; unary_rsync(&mut fl, &t, &u, &wit, &mut oc) }
            }
            match guard(|| Https::from_slice(&t)) {
                Err(p) => fl.fail("C12.https.parse.nopanic", &wit, || p),
                Ok(Err(_)) => bump(&mut oc, "rejected"),
                Ok(Ok(u)) => { bump(&mut oc, "https-accepted"); nt += 1; unary_https(&mut fl, &t, &u, &wit, &mut oc) }
            }
        }}}}
        let rb = Rsync::from_slice(b"rsync://host/module/dir").unwrap();
        let hb = Https::from_slice(b"https://host/dir").unwrap();
        for b in 0..=255u8 { for arg in [vec![b], vec![b, b'x'], vec![b'x', b]] {
            sp.evals(2);
            let wit = || format!("base={} arg_hex={}", rb.as_str(), hex(&arg));
            match guard(|| rb.join(&arg)) {
                Err(p) => fl.fail("C12.rsync.join.valid", &wit, || p),
                Ok(Err(_)) => bump(&mut oc, "join-rejected"),
                Ok(Ok(r)) => { bump(&mut oc, "join-accepted"); nt += 1; fl.check("C12.rsync.join.valid", &wit, || valid_rsync(&r)); }
            }
            let wit = || format!("base={} arg_hex={}", hb.as_str(), hex(&arg));
            match guard(|| hb.join(&arg)) {
                Err(p) => fl.fail("C12.https.join.valid", &wit, || p),
                Ok(Err(_)) => bump(&mut oc, "join-rejected"),
                Ok(Ok(r)) => { bump(&mut oc, "join-accepted"); nt += 1; fl.check("C12.https.join.valid", &wit, || valid_https(&r)); }
            }
        }}
        fl.flush(&ctx);
        sp.nontrivial(nt); sp.merge_outcomes(&oc);
        sp.sample_str(|| "hex=7273796e633a2f2f686f73742f6d6f64756c652f706174682f40 (…/@): rejected; '@' (userinfo delimiter) counts as not permitted although the comment above Rsync does not list it".into());
        sp.done(true, "256 octets x every position x {substitute, insert} x 4 seeds x 2 parsers; 256 x 3 join arguments x 2 types");
    }

    // ----------------------------------------------------------- 3. rsync pairs
    let ru = mk_ru(&upto(&r_by_len, pair_r));
    let sp = ctx.space("rsync.pairs",
        "all ordered pairs (self, other) of accepted rsync URIs (3 scheme spellings, tails up to the stated length): ==, hash, symmetry, relative_to, is_parent_of against the text model; non-trivial = pairs of different texts that are model-equal, or where relative_to returns Some, or where is_parent_of holds");
    {
        let n = ru.len();
        rsync_pairs(&ctx, &sp, &ru);
        sp.set("uris", json!(n)); sp.set("tail_length", json!(pair_r));
        sp.sample_str(|| format!("first/last URI of the set: {} … {}", s(&ru[0].text), s(&ru[n - 1].text)));
        sp.done(true, &format!("all {n}^2 ordered pairs of the accepted rsync URIs with tail length <= {pair_r}")); lap(&t0, &sp.name);
    }
    drop(ru);

    // ----------------------------------------------------------- 3b. https pairs
    let hu = mk_hu(&upto(&h_by_len, pair_h));
    let sp = ctx.space("https.pairs",
        "all ordered pairs of accepted https URIs (2 scheme spellings, tails up to the stated length): ==, hash, symmetry, eq_authority against the text model; non-trivial = pairs of different texts that are model-equal or share the authority");
    {
        let n = hu.len();
        https_pairs(&ctx, &sp, &hu);
        sp.set("uris", json!(n)); sp.set("tail_length", json!(pair_h));
        sp.sample_str(|| format!("first/last URI of the set: {} … {}", s(&hu[0].text), s(&hu[n - 1].text)));
        sp.done(true, &format!("all {n}^2 ordered pairs of the accepted https URIs with tail length <= {pair_h}")); lap(&t0, &sp.name);
    }
    drop(hu);

    // ------------------------------------------------------------------ 4. join
    let args = all_strings(&SIGMA, arg_len);
    let rj = mk_ru(&upto(&r_by_len, join_r));
    let sp = ctx.space("rsync.join",
        "all (base, arg): base over the accepted rsync URIs up to the stated tail length, arg over every string over {a,A,b,/,.,:,SPACE} up to the length bound: result validity/re-parse, lies-beneath-base, parent(join(base, one segment)), relative_to round trip; non-trivial = joins with a non-empty argument that succeed");
    {
        let n = rj.len();
        rsync_joins(&ctx, &sp, &rj, &args);
        sp.set("bases", json!(n)); sp.set("arguments", json!(args.len())); sp.set("base_tail_length", json!(join_r));
        sp.sample_str(|| "base=rsync://a/b/a arg=\"b/\" -> rsync://a/b/a/b/".into());
        sp.done(true, &format!("{n} bases (tail length <= {join_r}) x all {} arguments of length <= {arg_len}", args.len())); lap(&t0, &sp.name);
    }
    drop(rj);

    let hj = mk_hu(&upto(&h_by_len, join_h));
    let sp = ctx.space("https.join",
        "all (base, arg): base over the accepted https URIs up to the stated tail length, arg over every string over the 7-symbol alphabet up to the length bound: result validity/re-parse with the same authority, lies-beneath-base (text model), parent(join(base, one segment)); non-trivial = joins with a non-empty argument that succeed");
    {
        let n = hj.len();
        https_joins(&ctx, &sp, &hj, &args);
        sp.set("bases", json!(n)); sp.set("arguments", json!(args.len())); sp.set("base_tail_length", json!(join_h));
        sp.sample_str(|| "base=https://a arg=\"b\" -> must be https://a/b (authority a)".into());
        sp.done(true, &format!("{n} bases (tail length <= {join_h}) x all {} arguments of length <= {arg_len}", args.len())); lap(&t0, &sp.name);
    }
    drop(hj);

    // ------------------------------------------------- 4b. structured authorities
    // Authorities that some plausible normalisation would identify (default
    // port of the scheme, trailing dot, www., percent-escapes, bracketed and
    // dotted addresses, leading zeros in the port) but that the property keeps
    // apart: it compares scheme and authority case-insensitively and nothing else.
    {
        let auths: Vec<&str> = vec![
            "h", "H", "h.", "h.x", "H.X", "www.h", "h:873", "H:873", "h:443", "H:443", "h:80", "h:8873", "h:0873", "h:87", "h:", "h:873:873",
            "[::1]", "[::1]:873", "[::1]:443", "127.0.0.1", "127.0.0.1:873", "127.0.0.1:443", "127.1", "%68", "h%2e", "h%2E", "u@h", "@h", "h@873", "xn--h", "h-", "h_",
        ];
        let r_tails = ["/m/", "/m/a", "/m/a/", "/m/a/b", "/M/a", "/m"];
        let h_tails = ["", "/", "/a", "/a/", "/a/b", "/A"];
        let mut rt: Vec<Vec<u8>> = Vec::new(); let mut ht: Vec<Vec<u8>> = Vec::new();
        let (mut r_off, mut h_off) = (0u64, 0u64);
        for a in &auths {
            for sch in ["rsync://", "RSYNC://", "rSync://"] { for t in r_tails {
                let text = format!("{sch}{a}{t}").into_bytes();
                match (Rsync::from_slice(&text).is_ok(), model_rsync(&text).is_ok()) { (true, true) => rt.push(text), (false, false) => r_off += 1,
                    (lib, _) => ctx.fail("C12.rsync.authority_forms.accept", s(&text), format!("library accepts: {lib}, the documented grammar: {}", !lib)) }
            } }
            for sch in ["https://", "HTTPS://"] { for t in h_tails {
                let text = format!("{sch}{a}{t}").into_bytes();
                match (Https::from_slice(&text).is_ok(), model_https(&text).is_ok()) { (true, true) => ht.push(text), (false, false) => h_off += 1,
                    (lib, _) => ctx.fail("C12.https.authority_forms.accept", s(&text), format!("library accepts: {lib}, the documented grammar: {}", !lib)) }
            } }
        }
        let short_args = all_strings(&SIGMA, 2);
        let ru = mk_ru(&rt);
        let sp = ctx.space("rsync.authority_forms",
            "rsync URIs over 3 scheme spellings x 32 structured authorities (host in two cases, trailing dot, www., the default ports of rsync and https, other ports, leading zero, empty and doubled port, bracketed and dotted addresses with and without ports, percent-escapes in two cases, userinfo shapes, punycode-like and hyphen/underscore names) x 6 module/path tails: ALL ordered pairs (==, hash under three hashers, symmetry, relative_to, is_parent_of against the text model: authorities are the same only if they are equal ignoring ASCII case) and joins with every argument of <= 2 symbols; non-trivial = as in rsync.pairs / rsync.join");
        rsync_pairs(&ctx, &sp, &ru);
        rsync_joins(&ctx, &sp, &ru, &short_args);
        sp.set("uris", json!(ru.len())); sp.set("not_accepted_by_library_and_grammar", json!(r_off));
        sp.sample_str(|| "rsync://h:873/m/a vs rsync://h/m/ : not equal, relative_to None, not parent".into());
        sp.done(true, &format!("all {}^2 ordered pairs of the accepted URIs over 32 authorities x 3 schemes x 6 tails; joins with all arguments of length <= 2", ru.len())); lap(&t0, &sp.name);
        let hu = mk_hu(&ht);
        let sp = ctx.space("https.authority_forms",
            "https URIs over 2 scheme spellings x the same 32 structured authorities x 6 path tails: ALL ordered pairs (==, hash, symmetry, eq_authority against the text model) and joins with every argument of <= 2 symbols; non-trivial = as in https.pairs / https.join");
        https_pairs(&ctx, &sp, &hu);
        https_joins(&ctx, &sp, &hu, &short_args);
        sp.set("uris", json!(hu.len())); sp.set("not_accepted_by_library_and_grammar", json!(h_off));
        sp.sample_str(|| "https://h:443/a vs https://h/a : not equal, different authority".into());
        sp.done(true, &format!("all {}^2 ordered pairs of the accepted URIs over 32 authorities x 2 schemes x 6 tails; joins with all arguments of length <= 2", hu.len())); lap(&t0, &sp.name);
    }

    // --------------------------------------------------------------- 5. triples
    // A denser domain: 2 scheme spellings x tails over {a, A, /}, so that
    // equal-but-differently-spelled URIs and parent chains of depth >= 3 occur.
    let tri_alpha = [b'a', b'A', b'/'];
    let build = |schemes: &[&str], is_rsync: bool, max: u32| -> Vec<Vec<u8>> {
        let mut out = Vec::new();
        for tail in all_strings(&tri_alpha, max) {
            for sch in schemes {
                let mut t = sch.as_bytes().to_vec(); t.extend_from_slice(&tail);
                let ok = if is_rsync { Rsync::from_slice(&t).is_ok() && model_rsync(&t).is_ok() } else { Https::from_slice(&t).is_ok() && model_https(&t).is_ok() };
                if ok { out.push(t) }
            }
        }
        out
    };
    let tr = mk_ru(&build(&["rsync://", "RSYNC://"], true, tri_tail));
    let sp = ctx.space("rsync.triples",
        "all ordered triples (a,b,c) of accepted rsync URIs over {rsync://, RSYNC://} x tails over {a,A,/}: transitivity of == and of is_parent_of on the relations computed by the real code (n^2 calls each); non-trivial = triples of three different texts in which both premises of one of the two implications hold");
    {
        let n = tr.len();
        // a panicking comparison counts as "unrelated" here; it is reported once per pair below
        let rel = |f: &(dyn Fn(usize, usize) -> bool + Sync)| -> (Vec<bool>, Vec<usize>) {
            let raw: Vec<u8> = (0..n * n).into_par_iter().map(|k| match guard(|| f(k / n, k % n)) { Ok(b) => b as u8, Err(_) => 2 }).collect();
            (raw.iter().map(|&x| x == 1).collect(), raw.iter().enumerate().filter(|(_, x)| **x == 2).map(|(k, _)| k).collect())
        };
        let (eqm, eq_panics) = rel(&|a, b| tr[a].uri == tr[b].uri);
        let (parm, par_panics) = rel(&|a, b| tr[a].uri.is_parent_of(&tr[b].uri));
        for k in eq_panics.iter().chain(par_panics.iter()).take(64) {
            ctx.fail("C12.rsync.pair.nopanic", format!("self={} other={}", s(&tr[k / n].text), s(&tr[k % n].text)), "== or is_parent_of panicked");
        }
        sp.evals(2 * (n * n) as u64);
        batched(&ctx, n, 4096, |a, fl| {
            let mut nt = 0u64; let (mut c_eq, mut c_par, mut c_none) = (0u64, 0u64, 0u64);
            for b in 0..n {
                let (eab, pab) = (eqm[a * n + b], parm[a * n + b]);
                if !eab && !pab { c_none += n as u64; continue }
                for c in 0..n {
                    let distinct = a != b && b != c && a != c;
                    if eab && eqm[b * n + c] {
                        if distinct { nt += 1; c_eq += 1 }
                        if !eqm[a * n + c] { fl.fail("C12.rsync.eq.transitive", &|| format!("a={} b={} c={}", s(&tr[a].text), s(&tr[b].text), s(&tr[c].text)), || "a==b and b==c but a!=c".into()) }
                    }
                    if pab && parm[b * n + c] {
                        if distinct { nt += 1; c_par += 1 }
                        if !parm[a * n + c] { fl.fail("C12.rsync.is_parent_of.transitive", &|| format!("a={} b={} c={}", s(&tr[a].text), s(&tr[b].text), s(&tr[c].text)), || "a parent of b, b parent of c, but a not parent of c".into()) }
                    }
                }
            }
            // executions counted: one premise test per (a,b) plus one conclusion test per inspected (a,b,c)
            sp.evals(n as u64 + (n as u64 * n as u64 - c_none)); sp.nontrivial(nt);
            sp.outcomes_n("eq-chain", c_eq); sp.outcomes_n("parent-chain", c_par); sp.outcomes_n("triples-with-first-premise-false", c_none);
        });
        sp.set("uris", json!(n)); sp.set("tail_length", json!(tri_tail));
        sp.sample_str(|| "a=rsync://a/a/ b=RSYNC://A/a/a c=rsync://a/a/a/A : a parent of b, b parent of c".into());
        sp.done(true, &format!("all {n}^3 triples of the accepted rsync URIs with tails over {{a,A,/}} of length <= {tri_tail}")); lap(&t0, &sp.name);
    }
    let th_tail = tri_tail - 2;
    let th = mk_hu(&build(&["https://", "HTTPS://"], false, th_tail));
    let sp = ctx.space("https.triples",
        "all ordered triples of accepted https URIs over {https://, HTTPS://} x tails over {a,A,/}: transitivity of == on the relation computed by the real code; non-trivial = triples of three different texts with a==b and b==c");
    {
        let n = th.len();
        let raw: Vec<u8> = (0..n * n).into_par_iter().map(|k| match guard(|| th[k / n].uri == th[k % n].uri) { Ok(b) => b as u8, Err(_) => 2 }).collect();
        for (k, _) in raw.iter().enumerate().filter(|(_, x)| **x == 2).take(64) {
            ctx.fail("C12.https.pair.nopanic", format!("a={} b={}", s(&th[k / n].text), s(&th[k % n].text)), "== panicked");
        }
        let eqm: Vec<bool> = raw.iter().map(|&x| x == 1).collect();
        sp.evals((n * n) as u64);
        batched(&ctx, n, 4096, |a, fl| {
            let mut nt = 0u64; let (mut c_eq, mut c_none) = (0u64, 0u64);
            for b in 0..n {
                if !eqm[a * n + b] { c_none += n as u64; continue }
                for c in 0..n {
                    if eqm[b * n + c] {
                        if a != b && b != c && a != c { nt += 1; c_eq += 1 }
                        if !eqm[a * n + c] { fl.fail("C12.https.eq.transitive", &|| format!("a={} b={} c={}", s(&th[a].text), s(&th[b].text), s(&th[c].text)), || "a==b and b==c but a!=c".into()) }
                    }
                }
            }
            sp.evals(n as u64 + (n as u64 * n as u64 - c_none)); sp.nontrivial(nt);
            sp.outcomes_n("eq-chain", c_eq); sp.outcomes_n("triples-with-first-premise-false", c_none);
        });
        sp.set("uris", json!(n)); sp.set("tail_length", json!(th_tail));
        sp.sample_str(|| "a=https://aA/ b=HTTPS://Aa/ c=https://AA/ : all equal".into());
        sp.done(true, &format!("all {n}^3 triples of the accepted https URIs with tails over {{a,A,/}} of length <= {th_tail}")); lap(&t0, &sp.name);
    }

    // ------------------------------------------------- 6. long components
    // LENGTH dimension: internal block / buffer sizes are invisible to an
    // alphabet-length bound. Every component length 1..=80 and the powers of
    // two +-1 up to 1025, a 2-letter pattern, one ASCII case flip at every
    // position of the component and of the scheme.
    let lengths: Vec<usize> = (1..=80).chain([127, 128, 129, 255, 256, 257, 1023, 1024, 1025]).collect();
    let pattern = |l: usize, slashes: bool| -> Vec<u8> {
        (0..l).map(|i| if slashes && i % 8 == 7 && i + 1 < l { b'/' } else { b"ab"[i % 2] }).collect()
    };
    let flip = |v: &[u8], i: usize| -> Option<Vec<u8>> {
        if !v[i].is_ascii_alphabetic() { return None }
        let mut w = v.to_vec(); w[i] ^= 0x20; Some(w)
    };
    // variants of scheme ++ fixed ++ component ++ fixed: base, one flip per scheme letter, one flip per component position
    let variants = |scheme: &[u8], pre: &[u8], comp: &[u8], post: &[u8]| -> Vec<Vec<u8>> {
        let cat = |s: &[u8], c: &[u8]| { let mut t = s.to_vec(); t.extend_from_slice(pre); t.extend_from_slice(c); t.extend_from_slice(post); t };
        let mut out = vec![cat(scheme, comp)];
        for i in 0..5 { out.push(cat(&flip(scheme, i).unwrap(), comp)) }
        for i in 0..comp.len() { if let Some(c) = flip(comp, i) { out.push(cat(scheme, &c)) } }
        out
    };
    let long_args = |l: usize| -> Vec<Vec<u8>> {
        let p = pattern(l, false); let mut pd = p.clone(); pd.push(b'/');
        let mut v = vec![Vec::new(), b"x".to_vec(), b"x/".to_vec(), b"ab/cd".to_vec(), p, pd, pattern(l, true)];
        v.sort(); v.dedup(); v
    };
    let sp = ctx.space("rsync.long",
        "rsync URIs whose authority, module name or path has every length 1..=80, 127..129, 255..257, 1023..1025 (pattern abab…, the path with a slash every 8th octet): the base, one case flip at every position of that component and at every letter of the scheme, plus a child and the parent of five of these variants; unary oracles on each, ALL ordered pairs of the variants (==, hash, relative_to, is_parent_of against the text model), joins with short and equally long arguments, and every position overwritten by SPACE / DEL / 0x80 or followed by an empty or dot segment (must not be accepted); non-trivial = ordered pairs of different variants + successful non-empty joins");
    {
        let mut n_sets = 0u64; let mut n_uris = 0u64;
        for &l in &lengths { for comp in 0..3 {
            let texts = match comp {
                0 => variants(b"rsync://", b"", &pattern(l, false), b"/m/d/f"),
                1 => variants(b"rsync://", b"h/", &pattern(l, false), b"/d/f"),
                _ => variants(b"rsync://", b"h/m/", &pattern(l, true), b""),
            };
            // children and parents of a few variants, so that relative_to / is_parent_of
            // relate URIs across the case variants of the long component
            let mut texts = texts;
            for k in [0usize, 1, 6, 7, texts.len() - 1] {
                if k >= texts.len() { continue }
                let v = texts[k].clone();
                let mut child = v.clone(); child.extend_from_slice(b"/zz"); texts.push(child);
                if let Some(cutp) = v.iter().rposition(|&b| b == b'/') { let par = v[..cutp + 1].to_vec(); if model_rsync(&par).is_ok() { texts.push(par) } }
            }
            { let mut seen = std::collections::BTreeSet::new(); texts.retain(|x| seen.insert(x.clone())); }
            // all of them must be accepted and pass the unary oracles
            let mut fl = Fails::new(); let mut oc: Oc = BTreeMap::new(); let mut ok = Vec::new();
            for t in &texts {
                let wit = || format!("text={:?}", s(t));
                sp.eval();
                match guard(|| Rsync::from_slice(t)) {
                    Err(p) => fl.fail("C12.rsync.parse.nopanic", &wit, || p),
                    Ok(Err(_)) => bump(&mut oc, "long-uri-rejected"),
                    Ok(Ok(u)) => { bump(&mut oc, "long-uri-accepted"); unary_rsync(&mut fl, t, &u, &wit, &mut oc); if model_rsync(t).is_ok() { ok.push(t.clone()) } }
                }
            }
            // damaged copies of the base: a forbidden octet at every position; empty / dot segments behind the long part
            let base = &texts[0];
            let mut damaged: Vec<Vec<u8>> = Vec::new();
            for i in 8..base.len() { for b in [b' ', 0x7f, 0x80] { let mut d = base.clone(); d[i] = b; damaged.push(d) } }
            for tail in [&b"/../x"[..], b"/./x", b"//x", b"/..", b"/."] { let mut d = base.clone(); d.extend_from_slice(tail); damaged.push(d) }
            for d in &damaged {
                let wit = || format!("hex={}", hex(d));
                sp.eval();
                match guard(|| Rsync::from_slice(d)) {
                    Err(p) => fl.fail("C12.rsync.parse.nopanic", &wit, || p),
                    Ok(Err(_)) => bump(&mut oc, "damaged-long-uri-rejected"),
                    Ok(Ok(u)) => { bump(&mut oc, "damaged-long-uri-accepted"); unary_rsync(&mut fl, d, &u, &wit, &mut oc) }
                }
            }
            fl.flush(&ctx); sp.merge_outcomes(&oc);
            let ru = mk_ru(&ok);
            rsync_pairs(&ctx, &sp, &ru);
            rsync_joins(&ctx, &sp, &ru, &long_args(l));
            n_sets += 1; n_uris += ru.len() as u64;
        }}
        sp.set("lengths", json!(lengths)); sp.set("variant_sets", json!(n_sets)); sp.set("uris", json!(n_uris));
        sp.sample_str(|| "rsync://ababababababababababababab/m/d/f vs rsync://ababababababababababababAb/m/d/f : equal, must hash equally (authority of 26 octets, flip at octet 24)".into());
        sp.done(true, "3 components x 89 lengths (1..=80, 127-129, 255-257, 1023-1025) x (base + 5 scheme flips + one flip per position): all ordered pairs within each set, 7 join arguments per URI, 3 forbidden octets at every position");
        lap(&t0, &sp.name);
    }
    let sp = ctx.space("https.long",
        "https URIs whose authority or path has every length 1..=80, 127..129, 255..257, 1023..1025: base, one case flip at every position of the component and at every letter of the scheme; unary oracles, all ordered pairs of the variants (==, hash, eq_authority against the text model), joins with short and equally long arguments, forbidden octets at every position; non-trivial = ordered pairs of different variants + successful non-empty joins");
    {
        let mut n_sets = 0u64; let mut n_uris = 0u64;
        for &l in &lengths { for comp in 0..2 {
            let texts = match comp {
                0 => variants(b"https://", b"", &pattern(l, false), b"/d/f"),
                _ => variants(b"https://", b"h/", &pattern(l, true), b""),
            };
            let mut fl = Fails::new(); let mut oc: Oc = BTreeMap::new(); let mut ok = Vec::new();
            for t in &texts {
                let wit = || format!("text={:?}", s(t));
                sp.eval();
                match guard(|| Https::from_slice(t)) {
                    Err(p) => fl.fail("C12.https.parse.nopanic", &wit, || p),
                    Ok(Err(_)) => bump(&mut oc, "long-uri-rejected"),
                    Ok(Ok(u)) => { bump(&mut oc, "long-uri-accepted"); unary_https(&mut fl, t, &u, &wit, &mut oc); if model_https(t).is_ok() { ok.push(t.clone()) } }
                }
            }
            let base = &texts[0];
            for i in 8..base.len() { for b in [b' ', 0x7f, 0x80] {
                let mut d = base.clone(); d[i] = b;
                let wit = || format!("hex={}", hex(&d));
                sp.eval();
                match guard(|| Https::from_slice(&d)) {
                    Err(p) => fl.fail("C12.https.parse.nopanic", &wit, || p),
                    Ok(Err(_)) => bump(&mut oc, "damaged-long-uri-rejected"),
                    Ok(Ok(u)) => { bump(&mut oc, "damaged-long-uri-accepted"); unary_https(&mut fl, &d, &u, &wit, &mut oc) }
                }
            }}
            fl.flush(&ctx); sp.merge_outcomes(&oc);
            let hu = mk_hu(&ok);
            https_pairs(&ctx, &sp, &hu);
            https_joins(&ctx, &sp, &hu, &long_args(l));
            n_sets += 1; n_uris += hu.len() as u64;
        }}
        sp.set("lengths", json!(lengths)); sp.set("variant_sets", json!(n_sets)); sp.set("uris", json!(n_uris));
        sp.sample_str(|| "https://abab…(1024 octets)/d/f with one upper-case letter at each position in turn: all equal, all must hash equally".into());
        sp.done(true, "2 components x 89 lengths x (base + 5 scheme flips + one flip per position): all ordered pairs within each set, 7 join arguments per URI, 3 forbidden octets at every position");
        lap(&t0, &sp.name);
    }

    // ------------------------------------------------- 7. construction forms
    // The answers of every law must not depend on how the operands came into
    // being (own allocation, view into a shared buffer, result of another
    // operation, deserialised). Differential against the from_str pair, whose
    // answers are checked against the text model in rsync.pairs / https.pairs.
    let form_r: usize = 5;
    let form_h: usize = ctx.tier.pick(3, 4);
    let sp = ctx.space("rsync.forms",
        "every accepted rsync URI up to the stated tail length in every construction form (from_str, from_string, TryFrom<String>, from_slice, from_bytes on an own allocation, from_bytes on a view inside a larger buffer, clone, unshare, serde_json from str / from Value, result of parent(), result of join(), result of path_into_dir()); all ordered pairs of texts x all pairs of forms, plus - when one text is an octet prefix of the other - both operands as from_bytes views of ONE buffer starting at the same address (at the allocation start and at an offset) and as URI / its own parent() chain: ==, relative_to, is_parent_of and the per-value accessors, hash, parent, join must equal the answers for the from_str operands; non-trivial = (pair, form pair) combinations in which the from_str answer is not the trivial one (equal, Some, or parent) + all shared-buffer pairs");
    {
        let texts = upto(&r_by_len, form_r);
        let n = texts.len();
        type Obs = (String, String, String, String, H3, Option<String>, Option<String>, String);
        let observe = |u: &Rsync| -> Obs { (u.as_str().to_string(), u.authority().to_string(), u.module_name().to_string(), u.path().to_string(), h(u),
            u.parent().map(|p| p.to_string()), u.join(b"x/y").ok().map(|p| p.to_string()), serde_json::to_string(u).unwrap_or_default()) };
        let forms_of = |t: &[u8]| -> Vec<(&'static str, Rsync)> {
            let st = std::str::from_utf8(t).unwrap();
            let mut v: Vec<(&'static str, Rsync)> = Vec::new();
            let mut add = |name: &'static str, f: &dyn Fn() -> Option<Rsync>| { if let Ok(Some(u)) = guard(f) { v.push((name, u)) } };
            add("from_str", &|| st.parse().ok());
            add("from_string", &|| Rsync::from_string(st.to_string()).ok());
            add("try_from_string", &|| Rsync::try_from(st.to_string()).ok());
            add("from_slice", &|| Rsync::from_slice(t).ok());
            add("from_bytes(own)", &|| Rsync::from_bytes(bytes::Bytes::copy_from_slice(t)).ok());
            add("from_bytes(view inside a larger buffer)", &|| { let mut b = b"xy".to_vec(); b.extend_from_slice(t); b.extend_from_slice(b"zz/"); Rsync::from_bytes(bytes::Bytes::from(b).slice(2..2 + t.len())).ok() });
            add("clone", &|| st.parse::<Rsync>().ok().map(|u| u.clone()));
            add("unshare", &|| st.parse::<Rsync>().ok().map(|mut u| { u.unshare(); u }));
            add("serde(str)", &|| serde_json::from_str(&serde_json::to_string(st).ok()?).ok());
            add("serde(value)", &|| serde_json::from_value(serde_json::Value::String(st.to_string())).ok());
            if t.ends_with(b"/") {
                add("parent() of a child", &|| { let mut c = t.to_vec(); c.extend_from_slice(b"zz"); Rsync::from_slice(&c).ok()?.parent() });
                add("path_into_dir()", &|| { let mut u = Rsync::from_slice(&t[..t.len() - 1]).ok()?; u.path_into_dir(); Some(u) });
            }
            if let Ok(m) = model_rsync(t) { if !m.path.is_empty() {
                let seg_start = strip1(m.path).iter().rposition(|&b| b == b'/').map(|i| i + 1).unwrap_or(0);
                let cut = t.len() - m.path.len() + seg_start;
                add("join() result", &|| Rsync::from_slice(&t[..cut]).ok()?.join(&t[cut..]).ok());
            }}
            v.retain(|(_, u)| u.as_slice() == t);   // a form whose text differs is a different URI, not a form of this one
            v
        };
        let forms: Vec<Vec<(&'static str, Rsync)>> = texts.par_iter().map(|t| forms_of(t)).collect();
        // per-value observations
        let mut fl = Fails::new(); let mut form_count = 0u64;
        for (t, fs) in texts.iter().zip(&forms) {
            let reference = match guard(|| observe(&fs[0].1)) { Ok(o) => o, Err(p) => { fl.fail("C12.rsync.forms.value", &|| format!("text={} form={}", s(t), fs[0].0), || p); continue } };
            for (name, u) in fs.iter().skip(1) {
                form_count += 1; sp.eval();
                let wit = || format!("text={} form={name}", s(t));
                match guard(|| observe(u)) {
                    Err(p) => fl.fail("C12.rsync.forms.value", &wit, || p),
                    Ok(o) => if o != reference { fl.fail("C12.rsync.forms.value", &wit, || format!("(text, authority, module, path, hash, parent, join, json) = {o:?}, but {reference:?} for the from_str form")) }
                }
            }
        }
        fl.flush(&ctx);
        type PObs = (bool, bool, Option<String>, bool);
        let pobs = |x: &Rsync, y: &Rsync| -> Result<PObs, String> { guard(|| (*x == *y, *y == *x, x.relative_to(y).map(|p| p.to_string()), x.is_parent_of(y))) };
        batched(&ctx, n, 512, |i, fl| {
            let (mut nt, mut c_triv, mut c_rel, mut ev) = (0u64, 0u64, 0u64, 0u64);
            for j in 0..n {
                let reference = match pobs(&forms[i][0].1, &forms[j][0].1) { Ok(o) => o, Err(_) => continue };   // reported by rsync.pairs
                let trivial = !reference.0 && reference.2.is_none() && !reference.3;
                for (na, x) in &forms[i] { for (nb, y) in &forms[j] {
                    ev += 1; if trivial { c_triv += 1 } else { c_rel += 1; nt += 1 }
                    let wit = || format!("self={}[{na}] other={}[{nb}]", s(&texts[i]), s(&texts[j]));
                    match pobs(x, y) {
                        Err(p) => fl.fail("C12.rsync.forms.pair", &wit, || p),
                        Ok(o) => if o != reference { fl.fail("C12.rsync.forms.pair", &wit, || format!("(==, reversed ==, relative_to, is_parent_of) = {o:?}, but {reference:?} for the from_str operands")) }
                    }
                }}
            }
            sp.evals(ev); sp.nontrivial(nt);
            sp.outcomes_n("reference-unrelated", c_triv); sp.outcomes_n("reference-related", c_rel);
        });
        // operands that share memory: only possible when `other` is an octet prefix of `self`.
        // For every accepted text (longer tails than above) every prefix that is itself a valid URI.
        let long_texts = upto(&r_by_len, store_r);
        batched(&ctx, long_texts.len(), 4096, |i, fl| {
            let ta = &long_texts[i];
            let (mut c_shared, mut c_inside) = (0u64, 0u64);
            for cut in 9..=ta.len() {
                let tb = &ta[..cut];
                if model_rsync(tb).is_err() { continue }
                let fresh = |x: &[u8]| Rsync::from_slice(x).ok();
                let (Some(fa), Some(fb)) = (fresh(ta), fresh(tb)) else { continue };
                let mut shared: Vec<(&'static str, Option<(Rsync, Rsync)>)> = Vec::new();
                shared.push(("views of one buffer from its start", guard(|| { let buf = bytes::Bytes::copy_from_slice(ta);
                    Some((Rsync::from_bytes(buf.clone()).ok()?, Rsync::from_bytes(buf.slice(..tb.len())).ok()?)) }).ok().flatten()));
                shared.push(("views of one buffer at an offset", guard(|| { let mut b = b"pad".to_vec(); b.extend_from_slice(ta); b.extend_from_slice(b"/tail"); let buf = bytes::Bytes::from(b);
                    Some((Rsync::from_bytes(buf.slice(3..3 + ta.len())).ok()?, Rsync::from_bytes(buf.slice(3..3 + tb.len())).ok()?)) }).ok().flatten()));
                shared.push(("URI and its own parent() chain", guard(|| { let a = Rsync::from_slice(ta).ok()?; let mut p = a.clone();
                    while p.as_slice().len() > tb.len() { p = p.parent()? } if p.as_slice() == tb { Some((a, p)) } else { None } }).ok().flatten()));
                shared.push(("URI and its clone", if cut == ta.len() { guard(|| { let a = Rsync::from_slice(ta).ok()?; let c = a.clone(); Some((a, c)) }).ok().flatten() } else { None }));
                let inside_segment = cut < ta.len() && ta[cut - 1] != b'/' && ta[cut] != b'/';
                for (name, pair) in shared {
                    let Some((x, y)) = pair else { continue };
                    for (rev, l, r, fl_, fr_) in [(false, &x, &y, &fa, &fb), (true, &y, &x, &fb, &fa)] {
                        c_shared += 1; if inside_segment { c_inside += 1 }
                        let reference = match pobs(fl_, fr_) { Ok(o) => o, Err(_) => continue };
                        let wit = || if rev { format!("self={} other={} [{name}]", s(tb), s(ta)) } else { format!("self={} other={} [{name}]", s(ta), s(tb)) };
                        match pobs(l, r) {
                            Err(p) => fl.fail("C12.rsync.forms.pair", &wit, || p),
                            Ok(o) => if o != reference { fl.fail("C12.rsync.forms.pair", &wit, || format!("(==, reversed ==, relative_to, is_parent_of) = {o:?}, but {reference:?} for independently allocated operands")) }
                        }
                    }
                }
            }
            sp.evals(c_shared); sp.nontrivial(c_shared);
            sp.outcomes_n("shared-memory-operands", c_shared); sp.outcomes_n("shared-memory-operands-cut-inside-a-segment", c_inside);
        });
        sp.set("texts_for_shared_memory_pairs", json!(long_texts.len())); sp.set("shared_tail_length", json!(store_r));
        sp.set("texts", json!(n)); sp.set("forms_beyond_from_str", json!(form_count)); sp.set("tail_length", json!(form_r));
        sp.sample_str(|| "self=rsync://a/a/ab other=rsync://a/a/a [views of one buffer from its start] : relative_to must be None, as for independently allocated operands".into());
        sp.done(true, &format!("{n} texts (tail length <= {form_r}) in up to 13 forms each: all ordered pairs of texts x all form pairs; shared-memory constructions (2 kinds of views of one buffer, parent() chain, clone) for every (text, valid prefix of it) with tails up to the longer stored length, both operand orders"));
        lap(&t0, &sp.name);
    }
    let sp = ctx.space("https.forms",
        "every accepted https URI up to the stated tail length in every construction form (from_str, from_string, TryFrom<String>, from_slice, from_bytes own / view inside a larger buffer, clone, unshare, serde_json from str / Value, result of parent(), join(), path_into_dir()); all ordered pairs of texts x all pairs of forms, plus views of one shared buffer for prefix pairs: ==, eq_authority and the per-value accessors, hash, parent, join must equal the answers for the from_str operands; non-trivial = combinations whose from_str answer is 'equal' or 'same authority' + all shared-buffer pairs");
    {
        let texts = upto(&h_by_len, form_h);
        let n = texts.len();
        type Obs = (String, String, String, H3, Option<String>, Option<String>, String);
        let observe = |u: &Https| -> Obs { (u.as_str().to_string(), u.authority().to_string(), u.path().to_string(), h(u),
            u.parent().map(|p| p.to_string()), u.join(b"x/y").ok().map(|p| p.to_string()), serde_json::to_string(u).unwrap_or_default()) };
        let forms_of = |t: &[u8]| -> Vec<(&'static str, Https)> {
            let st = std::str::from_utf8(t).unwrap();
            let mut v: Vec<(&'static str, Https)> = Vec::new();
            let mut add = |name: &'static str, f: &dyn Fn() -> Option<Https>| { if let Ok(Some(u)) = guard(f) { v.push((name, u)) } };
            add("from_str", &|| st.parse().ok());
            add("from_string", &|| Https::from_string(st.to_string()).ok());
            add("try_from_string", &|| Https::try_from(st.to_string()).ok());
            add("from_slice", &|| Https::from_slice(t).ok());
            add("from_bytes(own)", &|| Https::from_bytes(bytes::Bytes::copy_from_slice(t)).ok());
            add("from_bytes(view inside a larger buffer)", &|| { let mut b = b"xy".to_vec(); b.extend_from_slice(t); b.extend_from_slice(b"zz/"); Https::from_bytes(bytes::Bytes::from(b).slice(2..2 + t.len())).ok() });
            add("clone", &|| st.parse::<Https>().ok().map(|u| u.clone()));
            add("unshare", &|| st.parse::<Https>().ok().map(|mut u| { u.unshare(); u }));
            add("serde(str)", &|| serde_json::from_str(&serde_json::to_string(st).ok()?).ok());
            add("serde(value)", &|| serde_json::from_value(serde_json::Value::String(st.to_string())).ok());
            if t.ends_with(b"/") {
                add("parent() of a child", &|| { let mut c = t.to_vec(); c.extend_from_slice(b"zz"); Https::from_slice(&c).ok()?.parent() });
                add("path_into_dir()", &|| { let mut u = Https::from_slice(&t[..t.len() - 1]).ok()?; u.path_into_dir(); Some(u) });
            }
            if let Ok(m) = model_https(t) { if m.path.len() > 1 {
                let seg_start = strip1(m.path).iter().rposition(|&b| b == b'/').map(|i| i + 1).unwrap_or(0);
                let cut = t.len() - m.path.len() + seg_start;
                add("join() result", &|| Https::from_slice(&t[..cut]).ok()?.join(&t[cut..]).ok());
            }}
            v.retain(|(_, u)| u.as_slice() == t);
            v
        };
        let forms: Vec<Vec<(&'static str, Https)>> = texts.par_iter().map(|t| forms_of(t)).collect();
        let mut fl = Fails::new(); let mut form_count = 0u64;
        for (t, fs) in texts.iter().zip(&forms) {
            let reference = match guard(|| observe(&fs[0].1)) { Ok(o) => o, Err(p) => { fl.fail("C12.https.forms.value", &|| format!("text={} form={}", s(t), fs[0].0), || p); continue } };
            for (name, u) in fs.iter().skip(1) {
                form_count += 1; sp.eval();
                let wit = || format!("text={} form={name}", s(t));
                match guard(|| observe(u)) {
                    Err(p) => fl.fail("C12.https.forms.value", &wit, || p),
                    Ok(o) => if o != reference { fl.fail("C12.https.forms.value", &wit, || format!("(text, authority, path, hash, parent, join, json) = {o:?}, but {reference:?} for the from_str form")) }
                }
            }
        }
        fl.flush(&ctx);
        type PObs = (bool, bool, bool);
        let pobs = |x: &Https, y: &Https| -> Result<PObs, String> { guard(|| (*x == *y, *y == *x, x.eq_authority(y))) };
        batched(&ctx, n, 512, |i, fl| {
            let (mut nt, mut c_triv, mut c_rel, mut ev) = (0u64, 0u64, 0u64, 0u64);
            for j in 0..n {
                let reference = match pobs(&forms[i][0].1, &forms[j][0].1) { Ok(o) => o, Err(_) => continue };
                let trivial = !reference.0 && !reference.2;
                for (na, x) in &forms[i] { for (nb, y) in &forms[j] {
                    ev += 1; if trivial { c_triv += 1 } else { c_rel += 1; nt += 1 }
                    let wit = || format!("a={}[{na}] b={}[{nb}]", s(&texts[i]), s(&texts[j]));
                    match pobs(x, y) {
                        Err(p) => fl.fail("C12.https.forms.pair", &wit, || p),
                        Ok(o) => if o != reference { fl.fail("C12.https.forms.pair", &wit, || format!("(==, reversed ==, eq_authority) = {o:?}, but {reference:?} for the from_str operands")) }
                    }
                }}
            }
            sp.evals(ev); sp.nontrivial(nt);
            sp.outcomes_n("reference-unrelated", c_triv); sp.outcomes_n("reference-related", c_rel);
        });
        let long_texts = upto(&h_by_len, store_h);
        batched(&ctx, long_texts.len(), 4096, |i, fl| {
            let ta = &long_texts[i];
            let (mut c_shared, mut c_inside) = (0u64, 0u64);
            for cut in 8..=ta.len() {
                let tb = &ta[..cut];
                if model_https(tb).is_err() { continue }
                let fresh = |x: &[u8]| Https::from_slice(x).ok();
                let (Some(fa), Some(fb)) = (fresh(ta), fresh(tb)) else { continue };
                let mut shared: Vec<(&'static str, Option<(Https, Https)>)> = Vec::new();
                shared.push(("views of one buffer from its start", guard(|| { let buf = bytes::Bytes::copy_from_slice(ta);
                    Some((Https::from_bytes(buf.clone()).ok()?, Https::from_bytes(buf.slice(..tb.len())).ok()?)) }).ok().flatten()));
                shared.push(("views of one buffer at an offset", guard(|| { let mut b = b"pad".to_vec(); b.extend_from_slice(ta); b.extend_from_slice(b"/tail"); let buf = bytes::Bytes::from(b);
                    Some((Https::from_bytes(buf.slice(3..3 + ta.len())).ok()?, Https::from_bytes(buf.slice(3..3 + tb.len())).ok()?)) }).ok().flatten()));
                shared.push(("URI and its own parent() chain", guard(|| { let a = Https::from_slice(ta).ok()?; let mut p = a.clone();
                    while p.as_slice().len() > tb.len() { p = p.parent()? } if p.as_slice() == tb { Some((a, p)) } else { None } }).ok().flatten()));
                shared.push(("URI and its clone", if cut == ta.len() { guard(|| { let a = Https::from_slice(ta).ok()?; let c = a.clone(); Some((a, c)) }).ok().flatten() } else { None }));
                let inside_segment = cut < ta.len() && ta[cut - 1] != b'/' && ta[cut] != b'/';
                for (name, pair) in shared {
                    let Some((x, y)) = pair else { continue };
                    for (rev, l, r, fl_, fr_) in [(false, &x, &y, &fa, &fb), (true, &y, &x, &fb, &fa)] {
                        c_shared += 1; if inside_segment { c_inside += 1 }
                        let reference = match pobs(fl_, fr_) { Ok(o) => o, Err(_) => continue };
                        let wit = || if rev { format!("a={} b={} [{name}]", s(tb), s(ta)) } else { format!("a={} b={} [{name}]", s(ta), s(tb)) };
                        match pobs(l, r) {
                            Err(p) => fl.fail("C12.https.forms.pair", &wit, || p),
                            Ok(o) => if o != reference { fl.fail("C12.https.forms.pair", &wit, || format!("(==, reversed ==, eq_authority) = {o:?}, but {reference:?} for independently allocated operands")) }
                        }
                    }
                }
            }
            sp.evals(c_shared); sp.nontrivial(c_shared);
            sp.outcomes_n("shared-memory-operands", c_shared); sp.outcomes_n("shared-memory-operands-cut-inside-a-segment", c_inside);
        });
        sp.set("texts_for_shared_memory_pairs", json!(long_texts.len())); sp.set("shared_tail_length", json!(store_h));
        sp.set("texts", json!(n)); sp.set("forms_beyond_from_str", json!(form_count)); sp.set("tail_length", json!(form_h));
        sp.sample_str(|| "a=https://a/ab b=https://a/a [views of one buffer from its start] : == must be false".into());
        sp.done(true, &format!("{n} texts (tail length <= {form_h}) in up to 13 forms each: all ordered pairs of texts x all form pairs; shared-memory constructions (2 kinds of views of one buffer, parent() chain, clone) for every (text, valid prefix of it) with tails up to the longer stored length, both operand orders"));
        lap(&t0, &sp.name);
    }

    // ------------------------------------------------------------- 8. scale
    // SCALE dimension (house rule): every length that the library measures is taken
    // through the neighbourhoods k-1, k, k+1 of the powers of two up to 2^17, for every
    // component alone and for combinations in which each part is below a threshold but
    // an index derived from their SUM is above it (u8 / u16 offsets).
    let pow_max: u32 = 17;
    let scale_lengths: Vec<usize> = (6..=pow_max).flat_map(|k| { let p = 1usize << k; [p - 1, p, p + 1] }).collect();
    let seg_run = |n: usize| -> Vec<u8> { let mut v = Vec::with_capacity(2 * n); for i in 0..n { v.push(b'a'); if i + 1 < n { v.push(b'/') } } v };
    // (authority length, module length) pairs whose sum crosses 2^8 and 2^16 (with the fixed
    // offsets 8/9/10 of "rsync://", and the two separators), in three splits each
    let mut sum_splits: Vec<(usize, usize)> = vec![(40000, 30000), (65527, 1), (32767, 32767), (65535, 65535), (65535, 1), (1, 65535), (65536, 65536), (32768, 32768)];
    for edge in [1usize << 8, 1 << 16] { for sum in edge - 14..=edge + 2 { for (a, m) in [(sum / 2, sum - sum / 2), (1, sum - 1), (sum - 1, 1)] { if a > 0 && m > 0 { sum_splits.push((a, m)) } } } }
    sum_splits.sort(); sum_splits.dedup();
    let short_r: Vec<Vec<u8>> = ["rsync://h/m/", "rsync://h/m/d/f", "RSYNC://H/m/d/f", "rsync://h/M/d/f", "rsync://a/m/d/f", "rsync://ab/ab/ab", "rsync://h/m/d/", "rsync://h/m/d"].iter().map(|x| x.as_bytes().to_vec()).collect();
    let sp = ctx.space("rsync.scale",
        "rsync URIs whose authority, module name, single path segment or number of one-letter path segments is 2^k-1, 2^k, 2^k+1 for k = 6..=17, and (authority, module) length pairs whose sum runs through 2^8-14..=2^8+2 and 2^16-14..=2^16+2 in three splits plus (40000,30000), (65527,1), (32767,32767), (65535,65535), (65536,65536): each such URI with a scheme flip, case flips at the first / middle / last octet of the long component(s), a child, its parent and 8 short URIs forms one group; unary oracles on every member, all ordered pairs within the group (==, three hashers, relative_to, is_parent_of against the text model), joins with short arguments and with an argument as long as the component; non-trivial = ordered pairs of different members + successful non-empty joins");
    {
        let mut big: Vec<(String, Vec<u8>, Vec<usize>, usize)> = Vec::new();   // (label, text, flip positions, arg length)
        let cat = |parts: &[&[u8]]| -> Vec<u8> { parts.concat() };
        for &l in &scale_lengths {
            let p = pattern(l, false);
            big.push((format!("authority={l}"), cat(&[b"rsync://", &p, b"/m/d/f"]), vec![8, 8 + l / 2, 8 + l - 1], l));
            big.push((format!("module={l}"), cat(&[b"rsync://h/", &p, b"/d/f"]), vec![10, 10 + l / 2, 10 + l - 1], l));
            big.push((format!("segment={l}"), cat(&[b"rsync://h/m/", &p]), vec![12, 12 + l / 2, 12 + l - 1], l));
            big.push((format!("segments={l}"), cat(&[b"rsync://h/m/", &seg_run(l)]), vec![12, 12 + 2 * (l / 2), 12 + 2 * (l - 1)], 3));
        }
        for &(a, m) in &sum_splits {
            big.push((format!("authority={a} module={m}"), cat(&[b"rsync://", &pattern(a, false), b"/", &pattern(m, false), b"/d/f"]), vec![8, 8 + a - 1, 9 + a, 9 + a + m - 1], 3));
        }
        let mut n_members = 0u64;
        for (_label, base, flips, arg_l) in &big {
            let mut texts: Vec<Vec<u8>> = vec![base.clone()];
            { let mut v = base.clone(); v[0] = b'R'; texts.push(v) }
            for &i in flips { if let Some(v) = flip(base, i) { texts.push(v) } }
            { let mut c = base.clone(); c.extend_from_slice(b"/zz"); texts.push(c) }
            if let Some(cutp) = base.iter().rposition(|&b| b == b'/') { let par = base[..cutp + 1].to_vec(); if model_rsync(&par).is_ok() { texts.push(par) } }
            texts.extend(short_r.iter().cloned());
            { let mut seen = std::collections::BTreeSet::new(); texts.retain(|x| seen.insert(x.clone())); }
            let mut fl = Fails::new(); let mut oc: Oc = BTreeMap::new(); let mut ok = Vec::new();
            for t in &texts {
                let wit = || format!("text={:?}", s(t));
                sp.eval();
                match guard(|| Rsync::from_slice(t)) {
                    Err(p) => fl.fail("C12.rsync.parse.nopanic", &wit, || p),
                    Ok(Err(e)) => { bump(&mut oc, "large-uri-rejected");
                        // the grammar knows no length limit; a parser that refuses a long URI is stricter (counted), but it
                        // must then refuse it whatever the case of its letters
                        let _ = e; }
                    Ok(Ok(u)) => { bump(&mut oc, "large-uri-accepted"); unary_rsync(&mut fl, t, &u, &wit, &mut oc); if model_rsync(t).is_ok() { ok.push(t.clone()) } }
                }
            }
            fl.flush(&ctx); sp.merge_outcomes(&oc);
            let ru = match guard(|| mk_ru(&ok)) { Ok(r) => r, Err(p) => { ctx.fail("C12.rsync.pair.nopanic", format!("group of text={:?}", s(base)), p); continue } };
            rsync_pairs(&ctx, &sp, &ru);
            let mut args: Vec<Vec<u8>> = vec![Vec::new(), b"x".to_vec(), b"x/".to_vec(), b"ab/cd".to_vec()];
            if *arg_l > 3 { args.push(pattern(*arg_l, false)); args.push(seg_run(*arg_l / 2 + 1)) }
            rsync_joins(&ctx, &sp, &ru, &args);
            n_members += ru.len() as u64;
        }
        sp.set("groups", json!(big.len())); sp.set("members", json!(n_members)); sp.set("lengths", json!(scale_lengths)); sp.set("sum_splits", json!(sum_splits.len()));
        sp.sample_str(|| "rsync://{a:40000}/{a:30000}/d/f : module_start 40009, path_start 70010 (each part below 2^16, the offsets not)".into());
        sp.done(true, &format!("{} groups: 4 quantities x lengths 2^k-1..2^k+1 (k = 6..=17) + {} (authority, module) sum splits; all ordered pairs and joins within each group", big.len(), sum_splits.len()));
        lap(&t0, &sp.name);
    }
    let short_h: Vec<Vec<u8>> = ["https://h", "https://h/", "https://h/d/f", "HTTPS://H/d/f", "https://h/D/f", "https://ab/ab", "https://h/d/"].iter().map(|x| x.as_bytes().to_vec()).collect();
    let sp = ctx.space("https.scale",
        "https URIs whose authority, single path segment or number of path segments is 2^k-1, 2^k, 2^k+1 for k = 6..=17: each with a scheme flip, case flips at the first / middle / last octet of the long component, a child, its parent and 7 short URIs forms one group; unary oracles, all ordered pairs within the group (==, three hashers, eq_authority), joins with short and equally long arguments; non-trivial = ordered pairs of different members + successful non-empty joins");
    {
        let mut big: Vec<(Vec<u8>, Vec<usize>, usize)> = Vec::new();
        for &l in &scale_lengths {
            let p = pattern(l, false);
            big.push(([&b"https://"[..], &p, b"/d/f"].concat(), vec![8, 8 + l / 2, 8 + l - 1], l));
            big.push(([&b"https://h/"[..], &p].concat(), vec![10, 10 + l / 2, 10 + l - 1], l));
            big.push(([&b"https://h/"[..], &seg_run(l)].concat(), vec![10, 10 + 2 * (l / 2), 10 + 2 * (l - 1)], 3));
        }
        let mut n_members = 0u64;
        for (base, flips, arg_l) in &big {
            let mut texts: Vec<Vec<u8>> = vec![base.clone()];
            { let mut v = base.clone(); v[0] = b'H'; texts.push(v) }
            for &i in flips { if let Some(v) = flip(base, i) { texts.push(v) } }
            { let mut c = base.clone(); c.extend_from_slice(b"/zz"); texts.push(c) }
            if let Some(cutp) = base.iter().rposition(|&b| b == b'/') { if cutp > 8 { texts.push(base[..cutp + 1].to_vec()) } }
            texts.extend(short_h.iter().cloned());
            { let mut seen = std::collections::BTreeSet::new(); texts.retain(|x| seen.insert(x.clone())); }
            let mut fl = Fails::new(); let mut oc: Oc = BTreeMap::new(); let mut ok = Vec::new();
            for t in &texts {
                let wit = || format!("text={:?}", s(t));
                sp.eval();
                match guard(|| Https::from_slice(t)) {
                    Err(p) => fl.fail("C12.https.parse.nopanic", &wit, || p),
                    Ok(Err(_)) => bump(&mut oc, "large-uri-rejected"),
                    Ok(Ok(u)) => { bump(&mut oc, "large-uri-accepted"); unary_https(&mut fl, t, &u, &wit, &mut oc); if model_https(t).is_ok() { ok.push(t.clone()) } }
                }
            }
            fl.flush(&ctx); sp.merge_outcomes(&oc);
            let hu = match guard(|| mk_hu(&ok)) { Ok(r) => r, Err(p) => { ctx.fail("C12.https.pair.nopanic", format!("group of text={:?}", s(base)), p); continue } };
            https_pairs(&ctx, &sp, &hu);
            let mut args: Vec<Vec<u8>> = vec![Vec::new(), b"x".to_vec(), b"x/".to_vec(), b"ab/cd".to_vec()];
            if *arg_l > 3 { args.push(pattern(*arg_l, false)); args.push(seg_run(*arg_l / 2 + 1)) }
            https_joins(&ctx, &sp, &hu, &args);
            n_members += hu.len() as u64;
        }
        sp.set("groups", json!(big.len())); sp.set("members", json!(n_members));
        sp.sample_str(|| "https://{a:65536}/d/f vs HTTPS://{a:65536}/d/f : equal, same write-call sequence into any Hasher".into());
        sp.done(true, &format!("{} groups: 3 quantities x lengths 2^k-1..2^k+1 (k = 6..=17); all ordered pairs and joins within each group", big.len()));
        lap(&t0, &sp.name);
    }

    // ---------------------------------------------------------------- 9. history
    // What happened before on this thread must not matter. Every sequence runs on its own new OS
    // thread; the reference is the same evaluation as the very first thing on another new thread.
    let sp = ctx.space("history.independent",
        "subjects: both parsers (from_bytes on an own allocation, from_slice, from_str, serde) on accepted and rejected texts (one per rejection stage: forbidden octet, wrong scheme, missing module, empty segment, dot segment; short and 1 KiB long), join / parent / relative_to / path_into_dir / == / hash evaluations; predecessors: every subject plus repeated failures of each stage, the OTHER scheme's parser on the subject's own text, long URIs, failed joins; for every predecessor (thorough: every ordered pair of predecessors) a new OS thread runs the predecessor(s), then every subject in order and in reverse order; each observation must equal the one made first thing on a thread of its own; non-trivial = (sequence, subject) evaluations whose predecessor and subject differ");
    {
        let long_r = { let mut v = b"rsync://host/module/".to_vec(); v.extend(pattern(1024, true)); v };
        let long_h = { let mut v = b"https://host/".to_vec(); v.extend(pattern(1024, true)); v };
        let texts: Vec<Vec<u8>> = vec![b"rsync://host/module/".to_vec(), b"rsync://host/module/a/b".to_vec(), b"RSYNC://Host/Module/a/b/".to_vec(), b"rsync://host/module/a b".to_vec(),
            b"rsync://host/module//a".to_vec(), b"rsync://host/module/../a".to_vec(), b"rsync://host/".to_vec(), b"rsync://host/module".to_vec(), b"https://host/a/b".to_vec(), b"HTTPS://Host".to_vec(),
            b"https://host/a b".to_vec(), b"https://ho\x7fst/ab".to_vec(), b"https://host/a\xffb".to_vec(), b"http://host/a/b".to_vec(), b"".to_vec(), long_r, long_h];
        let mut subjects: Vec<(String, Eval)> = Vec::new();
        for t in &texts {
            let name = s(t);
            let t1 = t.clone(); subjects.push((format!("Rsync::from_bytes({name:?})"), Box::new(move || obs_rsync(guard(|| Rsync::from_bytes(bytes::Bytes::copy_from_slice(&t1)))))));
            let t1 = t.clone(); subjects.push((format!("Https::from_bytes({name:?})"), Box::new(move || obs_https(guard(|| Https::from_bytes(bytes::Bytes::copy_from_slice(&t1)))))));
            let t1 = t.clone(); subjects.push((format!("Rsync::from_slice({name:?})"), Box::new(move || obs_rsync(guard(|| Rsync::from_slice(&t1))))));
            let t1 = t.clone(); subjects.push((format!("Https::from_slice({name:?})"), Box::new(move || obs_https(guard(|| Https::from_slice(&t1))))));
            if let Ok(st) = String::from_utf8(t.clone()) {
                let s1 = st.clone(); subjects.push((format!("serde Rsync {name:?}"), Box::new(move || format!("{:?}", guard(|| serde_json::from_value::<Rsync>(serde_json::Value::String(s1.clone())).map(|u| u.to_string()).map_err(|_| ()))))));
                let s1 = st.clone(); subjects.push((format!("serde Https {name:?}"), Box::new(move || format!("{:?}", guard(|| serde_json::from_value::<Https>(serde_json::Value::String(s1.clone())).map(|u| u.to_string()).map_err(|_| ()))))));
            }
        }
        for (base, arg) in [("rsync://host/module/a", &b"b/c"[..]), ("rsync://host/module/a", b"../c"), ("rsync://host/module/a", b"b c"), ("rsync://host/module/", b"/x"), ("rsync://host/module/a/", b"")] {
            subjects.push((format!("Rsync({base}).join({:?})", s(arg)), Box::new(move || obs_rsync(guard(|| Rsync::from_slice(base.as_bytes()).and_then(|u| u.join(arg)))))));
        }
        for (base, arg) in [("https://host", &b"x"[..]), ("https://host/a", b"b/"), ("https://host/a/", b"b c")] {
            subjects.push((format!("Https({base}).join({:?})", s(arg)), Box::new(move || obs_https(guard(|| Https::from_slice(base.as_bytes()).and_then(|u| u.join(arg)))))));
        }
        for (a, b) in [("rsync://host/module/a/b", "rsync://HOST/module/a/"), ("rsync://host/module/a/b", "rsync://host/Module/a/"), ("rsync://host/module/ab", "rsync://host/module/a")] {
            subjects.push((format!("relative_to({a}, {b})"), Box::new(move || format!("{:?}", guard(|| { let (x, y) = (Rsync::from_slice(a.as_bytes()).unwrap(), Rsync::from_slice(b.as_bytes()).unwrap());
                (x.relative_to(&y).map(|p| p.to_string()), y.is_parent_of(&x), x == y, h(&x) == h(&y)) })))));
        }
        for base in ["rsync://host/module/a/b", "rsync://host/module/a/b/"] {
            subjects.push((format!("path_into_dir({base}) with a live clone"), Box::new(move || { let r = guard(|| { let mut u = Rsync::from_slice(base.as_bytes())?; let c = u.clone(); u.path_into_dir(); drop(c); Ok(u) }); obs_rsync(r) })));
        }
        // predecessors: all subjects + dedicated ones
        let mut preds: Vec<(String, Eval)> = Vec::new();
        for (i, (n, _)) in subjects.iter().enumerate() { let _ = i; preds.push((n.clone(), Box::new(|| String::new()))) }   // placeholders, run through `subjects[i]`
        let n_subj = subjects.len();
        for t in &texts { for reps in [2usize, 5] {
            let t1 = t.clone(); preds.push((format!("{reps} x both parsers on one Bytes of {:?}", s(t)), Box::new(move || { for _ in 0..reps { let b = bytes::Bytes::copy_from_slice(&t1);
                let _ = guard(|| Rsync::from_bytes(b.clone())); let _ = guard(|| Https::from_bytes(b.clone())); let _ = guard(|| Rsync::from_bytes(b.clone())); } String::new() })));
        }}
        let run_pred = |k: usize| { if k < n_subj { let _ = (subjects[k].1)(); } else { let _ = (preds[k].1)(); } };
        let baseline: Vec<String> = (0..n_subj).map(|i| fresh_thread(|| (subjects[i].1)()).unwrap_or_else(|e| e)).collect();
        let np = preds.len();
        let seqs: Vec<Vec<usize>> = if ctx.tier.is_thorough() { (0..np).flat_map(|a| (0..np).map(move |b| vec![a, b])).chain((0..np).map(|a| vec![a])).collect() } else { (0..np).map(|a| vec![a]).collect() };
        // sequences are independent of each other: run them 16 at a time, each on its own thread
        for chunk in seqs.chunks(16) {
            let outs: Vec<Result<Vec<(usize, String)>, String>> = std::thread::scope(|sc| {
                let (rp, subj) = (&run_pred, &subjects);
                let hs: Vec<_> = chunk.iter().map(|seq| sc.spawn(move || { for &k in seq { rp(k) }
                    let mut o: Vec<(usize, String)> = (0..n_subj).map(|i| (i, (subj[i].1)())).collect();
                    o.extend((0..n_subj).rev().map(|i| (i, (subj[i].1)()))); o })).collect();
                hs.into_iter().map(|h| h.join().map_err(|_| "sequence thread died".to_string())).collect()
            });
            for (seq, out) in chunk.iter().zip(outs) {
                let pname = seq.iter().map(|&k| preds[k].0.clone()).collect::<Vec<_>>().join(" ; then ");
                match out {
                    Err(e) => ctx.fail("C12.history.independent", format!("after [{pname}]"), e),
                    Ok(o) => for (pos, (i, got)) in o.iter().enumerate() {
                        sp.eval(); if !seq.contains(i) { sp.nontrivial(1) }
                        if *got != baseline[*i] {
                            ctx.fail("C12.history.independent", format!("after [{pname}] (subject #{pos} of the thread): {}", subjects[*i].0), format!("observed {}, but {} as the first evaluation of a new thread", rpki_verif::trunc(got, 300), rpki_verif::trunc(&baseline[*i], 300)));
                        }
                        sp.outcome(if got.starts_with("ok") || got.contains("Ok(") { "subject-accepted" } else { "subject-rejected" });
                    }
                }
            }
        }
        sp.set("subjects", json!(n_subj)); sp.set("predecessors", json!(np)); sp.set("sequences", json!(seqs.len()));
        sp.sample_str(|| "after [Rsync::from_bytes(\"https://host/a/b\")]: Https::from_bytes(\"https://host/a b\") must still be rejected".into());
        sp.done(true, &format!("{} sequences ({}) x {} subjects forwards and backwards, one OS thread per sequence", seqs.len(), if ctx.tier.is_thorough() { "all single predecessors and ordered pairs" } else { "all single predecessors" }, n_subj));
        lap(&t0, &sp.name);
    }

    // a predecessor's BUFFER recycled for the subject: same address, same length, other octets
    let sp = ctx.space("history.recycled_buffer",
        "for every (predecessor text, subject text of the same length: the predecessor with one octet replaced by SPACE / DEL / 0x80 / 'x' at the first, a middle and the last position, and the predecessor itself) x predecessor parser {Rsync, Https} x subject parser {Rsync, Https} x recycling route {BytesMut: put, split, freeze, parse, reserve, put again; clone parsed, try_into_mut, patch, freeze; Vec dropped and a Vec of the same size allocated}: on a new OS thread the predecessor parses its Bytes, the buffer is recycled and from_bytes parses the subject octets at (normally) the same address and length; the observation must equal from_slice on the same octets; non-trivial = sequences whose subject octets differ from the predecessor's (for the two Bytes routes the recycled buffer has the predecessor's address by construction, recorded as an outcome)");
    {
        use bytes::{BufMut, Bytes, BytesMut};
        let ptexts: Vec<&[u8]> = vec![b"https://host/a/b", b"rsync://host/module/a", b"https://host", b"rsync://host/m/", b"http://host/abc", b"rsync://host//a", b"https://ho st/a", b"HTTPS://HOST/A/B", b"RSYNC://h/m/a/b/c"];
        let mut cases: Vec<(Vec<u8>, Vec<u8>, u8, u8, u8)> = Vec::new();
        for p in &ptexts {
            let mut subs: Vec<Vec<u8>> = vec![p.to_vec()];
            for pos in [8usize.min(p.len() - 1), p.len() / 2 + 2, p.len() - 1] { for b in [b' ', 0x7f, 0x80, b'x'] { let mut v = p.to_vec(); v[pos.min(p.len() - 1)] = b; subs.push(v) } }
            // the same tail under the other scheme (both scheme prefixes have 8 octets)
            if p.len() >= 8 { let mut v = p.to_vec(); let other: &[u8] = if p[..8].eq_ignore_ascii_case(b"rsync://") { b"https://" } else { b"rsync://" }; v[..8].copy_from_slice(other); subs.push(v) }
            subs.sort(); subs.dedup();
            for sub in subs { for pp in 0..2u8 { for spr in 0..2u8 { for route in 0..3u8 { cases.push((p.to_vec(), sub.clone(), pp, spr, route)) } } } }
        }
        let parse = |which: u8, b: Bytes| -> String { if which == 0 { obs_rsync(guard(|| Rsync::from_bytes(b))) } else { obs_https(guard(|| Https::from_bytes(b))) } };
        let parse_slice = |which: u8, b: &[u8]| -> String { if which == 0 { obs_rsync(guard(|| Rsync::from_slice(b))) } else { obs_https(guard(|| Https::from_slice(b))) } };
        for chunk in cases.chunks(16) {
            let outs: Vec<Result<(String, bool), String>> = std::thread::scope(|sc| {
                let hs: Vec<_> = chunk.iter().map(|(p, sub, pp, spr, route)| sc.spawn(move || {
                    match route {
                        0 => { let mut buf = BytesMut::with_capacity(p.len()); buf.put_slice(p); let b1 = buf.split().freeze(); let addr = b1.as_ptr() as usize;
                               let _ = parse(*pp, b1); buf.reserve(sub.len()); buf.put_slice(sub); let b2 = buf.split().freeze(); let same = b2.as_ptr() as usize == addr; (parse(*spr, b2), same) }
                        1 => { let b1 = Bytes::from(p.clone()); let addr = b1.as_ptr() as usize; let _ = parse(*pp, b1.clone());
                               match b1.try_into_mut() { Ok(mut m) => { m.copy_from_slice(sub); let b2 = m.freeze(); let same = b2.as_ptr() as usize == addr; (parse(*spr, b2), same) }
                                   Err(_) => (parse(*spr, Bytes::copy_from_slice(sub)), false) } }
                        _ => { let b1 = Bytes::from(p.clone()); let addr = b1.as_ptr() as usize; let _ = parse(*pp, b1); let b2 = Bytes::from(sub.clone()); let same = b2.as_ptr() as usize == addr; (parse(*spr, b2), same) }
                    }
                })).collect();
                hs.into_iter().map(|h| h.join().map_err(|_| "sequence thread died".to_string())).collect()
            });
            for ((p, sub, pp, spr, route), out) in chunk.iter().zip(outs) {
                sp.eval();
                let names = ["Rsync", "Https"]; let routes = ["BytesMut put/split/freeze, reserve, put again", "try_into_mut, overwrite, freeze", "drop, allocate the same size"];
                let wit = format!("{}::from_bytes(hex {}) ; recycle [{}] ; {}::from_bytes(hex {})", names[*pp as usize], rpki_verif::hex(p), routes[*route as usize], names[*spr as usize], rpki_verif::hex(sub));
                match out {
                    Err(e) => ctx.fail("C12.history.recycled_buffer", wit, e),
                    Ok((got, same)) => {
                        // (whether the allocator hands the same block out again is not under our control and is not counted)
                        if sub != p { sp.nontrivial(1) }
                        if *route == 2 { sp.outcome("allocator-reuse-attempted") } else if same { sp.outcome("same-address-and-length") } else { sp.outcome("recycling-gave-another-address") }
                        let want = fresh_thread(|| parse_slice(*spr, sub)).unwrap_or_else(|e| e);
                        if got != want { ctx.fail("C12.history.recycled_buffer", wit, format!("observed {}, but from_slice on the same octets gives {}", rpki_verif::trunc(&got, 300), rpki_verif::trunc(&want, 300))) }
                    }
                }
            }
        }
        sp.set("sequences", json!(cases.len()));
        sp.sample_str(|| "Rsync::from_bytes(\"https://host/a/b\") ; try_into_mut, overwrite, freeze ; Https::from_bytes(\"https://host/a b\") : must be rejected like from_slice".into());
        sp.done(true, &format!("{} sequences, one OS thread each", cases.len()));
        lap(&t0, &sp.name);
    }

    // -------------------------------------------------------------- 10. ownership
    let own_r: usize = ctx.tier.pick(5, 6);
    let own_h: usize = ctx.tier.pick(3, 4);
    let sp = ctx.space("ownership",
        "every accepted rsync / https URI up to the stated tail length x 11 ways of owning its octets (sole owner, live clone, clone dropped before, to_bytes() result alive, view at offset 0 / middle / end of a larger buffer, view of a dropped larger buffer, from_static, frozen BytesMut, Vec with spare capacity) x every &mut self / self / &self operation (path_into_dir, unshare, join x 3 arguments, parent, relative_to its module, clone, to_bytes, to_string): the full observation of the result must equal the sole-owner result, the result must be a valid URI that re-parses to itself, and every co-owner (clone, larger buffer) must be unchanged; non-trivial = (URI, form, operation) combinations with a co-owner alive");
    {
        let rt = upto(&r_by_len, own_r); let ht = upto(&h_by_len, own_h);
        const OPS: [&str; 9] = ["path_into_dir", "unshare", "join(x)", "join(x/y/)", "join()", "parent", "relative_to(module)", "clone", "to_bytes"];
        batched(&ctx, rt.len() + ht.len(), 512, |i, fl| {
            let is_r = i < rt.len();
            let t: &Vec<u8> = if is_r { &rt[i] } else { &ht[i - rt.len()] };
            let mut nt = 0u64; let mut ev = 0u64; let mut oc: Oc = BTreeMap::new();
            for (op, opname) in OPS.iter().enumerate() {
                if !is_r && (op == 6) { continue }
                let mut reference: Option<String> = None;
                for (form, fname) in OWNER_FORMS.iter().enumerate() {
                    ev += 1;
                    let wit = || format!("uri={} owned as [{fname}] op={opname}", s(t));
                    let r = guard(|| -> Result<(String, bool), String> {
                        let (b, keep) = owner_bytes(form, t);
                        let keep_copy = keep.as_ref().map(|k| k.to_vec());
                        if is_r {
                            let mut u = Rsync::from_bytes(b).map_err(|e| format!("the form is not accepted: {e}"))?;
                            let clone = match form { 1 => Some(u.clone()), 2 => { drop(u.clone()); None } _ => None };
                            let held = if form == 3 { Some(u.to_bytes()) } else { None };
                            let res: Result<Rsync, rpki::uri::Error> = match op {
                                0 => { u.path_into_dir(); Ok(u.clone()) } 1 => { u.unshare(); Ok(u.clone()) }
                                2 => u.join(b"x"), 3 => u.join(b"x/y/"), 4 => u.join(b""),
                                5 => u.parent().ok_or(rpki::uri::Error::BadUri),
                                6 => { let m = Rsync::from_slice(u.module().as_bytes()).map_err(|e| e.to_string())?; let rel = u.relative_to(&m).map(|x| x.to_string()); return finish(format!("rel={rel:?} parent_of={}", m.is_parent_of(&u)), &u, clone.as_ref().map(|c| obs_rsync(Ok(Ok(c.clone())))), held, keep, keep_copy, t, true) }
                                7 => Ok(u.clone()), _ => Rsync::from_bytes(u.to_bytes()),
                            };
                            if let Ok(r) = &res { valid_rsync(r).map_err(|e| format!("result: {e}"))? }
                            // for the mutating operations `u` is the result; for the others `u` must be unchanged
                            let after = obs_rsync(Ok(Ok(u.clone())));
                            let clone_obs = clone.as_ref().map(|c| obs_rsync(Ok(Ok(c.clone()))));
                            return finish(format!("{} | self afterwards: {after}", obs_rsync(Ok(res))), &u, clone_obs, held, keep, keep_copy, t, true);
                            fn finish(o: String, _u: &Rsync, clone_obs: Option<String>, held: Option<bytes::Bytes>, keep: Option<bytes::Bytes>, keep_copy: Option<Vec<u8>>, t: &[u8], is_r: bool) -> Result<(String, bool), String> {
                                let fresh = if is_r { obs_rsync(Ok(Rsync::from_slice(t))) } else { String::new() };
                                if let Some(c) = &clone_obs { if *c != fresh { return Err(format!("the clone taken before the operation now observes {c}, a fresh parse {fresh}")) } }
                                if let Some(hb) = &held { if hb.as_ref() != t { return Err("the to_bytes() result taken before the operation changed".into()) } }
                                if let (Some(k), Some(kc)) = (&keep, &keep_copy) { if k.as_ref() != &kc[..] { return Err("the larger buffer the URI is a view of changed".into()) } }
                                Ok((o, clone_obs.is_some() || held.is_some() || keep.is_some()))
                            }
                        } else {
                            let mut u = Https::from_bytes(b).map_err(|e| format!("the form is not accepted: {e}"))?;
                            let clone = match form { 1 => Some(u.clone()), 2 => { drop(u.clone()); None } _ => None };
                            let held: Option<bytes::Bytes> = if form == 3 { Some(AsRef::<bytes::Bytes>::as_ref(&u).clone()) } else { None };
                            let res: Result<Https, rpki::uri::Error> = match op {
                                0 => { u.path_into_dir(); Ok(u.clone()) } 1 => { u.unshare(); Ok(u.clone()) }
                                2 => u.join(b"x"), 3 => u.join(b"x/y/"), 4 => u.join(b""),
                                5 => u.parent().ok_or(rpki::uri::Error::BadUri),
                                7 => Ok(u.clone()), _ => Https::from_bytes(AsRef::<bytes::Bytes>::as_ref(&u).clone()),
                            };
                            if let Ok(r) = &res { valid_https(r).map_err(|e| format!("result: {e}"))? }
                            let after = obs_https(Ok(Ok(u.clone())));
                            let fresh = obs_https(Ok(Https::from_slice(t)));
                            if let Some(c) = &clone { let co = obs_https(Ok(Ok(c.clone()))); if co != fresh { return Err(format!("the clone taken before the operation now observes {co}, a fresh parse {fresh}")) } }
                            if let Some(hb) = &held { if hb.as_ref() != &t[..] { return Err("the Bytes taken before the operation changed".into()) } }
                            if let (Some(k), Some(kc)) = (&keep, &keep_copy) { if k.as_ref() != &kc[..] { return Err("the larger buffer the URI is a view of changed".into()) } }
                            Ok((format!("{} | self afterwards: {after}", obs_https(Ok(res))), clone.is_some() || held.is_some() || keep.is_some()))
                        }
                    });
                    match r {
                        Err(p) => fl.fail("C12.ownership", &wit, || p),
                        Ok(Err(e)) => fl.fail("C12.ownership", &wit, || e),
                        Ok(Ok((o, shared))) => {
                            if shared { nt += 1 }
                            bump(&mut oc, if shared { "co-owner-alive" } else { "no-co-owner" });
                            match &reference { None => reference = Some(o), Some(want) => if o != *want { fl.fail("C12.ownership", &wit, || format!("observed {}, but the sole owner gives {}", rpki_verif::trunc(&o, 400), rpki_verif::trunc(want, 400))) } }
                        }
                    }
                }
            }
            sp.evals(ev); sp.nontrivial(nt); sp.merge_outcomes(&oc);
        });
        sp.set("rsync_uris", json!(rt.len())); sp.set("https_uris", json!(ht.len())); sp.set("forms", json!(OWNER_FORMS)); sp.set("operations", json!(OPS));
        sp.sample_str(|| "uri=rsync://a/a/a owned as [live clone] op=path_into_dir : result rsync://a/a/a/ as for the sole owner, the clone still rsync://a/a/a".into());
        sp.done(true, &format!("{} rsync URIs (tail <= {own_r}) + {} https URIs (tail <= {own_h}) x 11 ownership forms x 9 operations", rt.len(), ht.len()));
        lap(&t0, &sp.name);
    }

    // ------------------------------------------------------- 11. call parameters
    let sp = ctx.space("display.parameters",
        "Display of every accepted rsync / https URI (tails as in `ownership`) and of both Scheme values under width 0..=40 x {default, <, ^, >} x fill {SPACE, 0} x flags {#, +, 0} and precision 0..=40 (alone and combined with a width): the output must be the text itself or the WHOLE text padded with one fill character to the width (a precision may cut the whole text to its first N characters, as str does; the spec must never be applied to a part of the text), so that trimming the fill gives back a text that parses to the same URI; non-trivial = renderings that differ from the plain text");
    {
        let rt = upto(&r_by_len, own_r); let ht = upto(&h_by_len, own_h);
        batched(&ctx, rt.len() + ht.len() + 2, 256, |i, fl| {
            let (canon, v): (String, Box<dyn std::fmt::Display>) = if i < rt.len() { let u = Rsync::from_slice(&rt[i]).unwrap(); (s(&rt[i]), Box::new(u)) }
                else if i < rt.len() + ht.len() { let t = &ht[i - rt.len()]; (s(t), Box::new(Https::from_slice(t).unwrap())) }
                else if i == rt.len() + ht.len() { ("rsync://".into(), Box::new(Scheme::Rsync)) } else { ("https://".into(), Box::new(Scheme::Https)) };
            let (mut ev, mut nt) = (0u64, 0u64); let mut oc: Oc = BTreeMap::new();
            for w in 0..=40usize {
                let p = w;
                match guard(|| display_renderings(&*v, w, p)) {
                    Err(pn) => fl.fail("C12.display.parameters", &|| format!("value={canon} width/precision={w}"), || pn),
                    Ok(rs) => for (spec, out, width, prec, align) in rs {
                        ev += 1; if out != canon { nt += 1; bump(&mut oc, "padded-or-cut") } else { bump(&mut oc, "plain") }
                        if !display_spec_ok(&out, &canon, width, prec, align, true) {
                            fl.fail("C12.display.parameters", &|| format!("value={canon} spec={spec}"), || format!("renders as {out:?}: neither the text nor the whole text padded / cut"));
                        }
                    }
                }
            }
            sp.evals(ev); sp.nontrivial(nt); sp.merge_outcomes(&oc);
        });
        sp.sample_str(|| "format!(\"{:>16}\", https://a/b) = \"     https://a/b\"; format!(\"{:.9}\", https://a/b) = \"https://a\" (whole-text cut, as for str); Rsync ignores both".into());
        sp.done(true, &format!("{} values x 41 widths/precisions x 16 format specs", rt.len() + ht.len() + 2));
        lap(&t0, &sp.name);
    }
    // ------------------------------------------------------- 12. wrapper types
    let sp = ctx.space("wrappers.taluri",
        "repository::tal::TalUri (the public enum that wraps either URI type and is Eq + Hash) built by every route {From<Rsync>, From<Https>, from_slice, from_string, from_bytes, FromStr, TryFrom<String>, serde} from every accepted rsync and https text (three scheme spellings, authority letters in both cases; tails up to the stated length): every route gives the same value; for all ordered pairs a == b must be the text model's verdict (same kind and model-equal URIs), equal values must hash identically under the three hashers and collapse in a HashSet, as_str is the text and is_rsync / is_https name the kind; non-trivial = ordered pairs of different texts that are model-equal");
    {
        use rpki::repository::tal::TalUri;
        let wl: usize = ctx.tier.pick(3, 4);
        let ru = mk_ru(&upto(&r_by_len, wl)); let hu = mk_hu(&upto(&h_by_len, wl));
        // (kind, key for model equality, text, value)
        struct W { rsync: bool, key: (Vec<u8>, Vec<u8>), text: Vec<u8>, v: TalUri, hash: H3 }
        let mut ws: Vec<W> = Vec::new();
        let mut fl0 = Fails::new();
        for r in &ru {
            let v: TalUri = r.uri.clone().into();
            ws.push(W { rsync: true, key: (r.pkey.clone(), r.path.clone()), text: r.text.clone(), hash: guard(|| h(&v)).unwrap_or((0, 0, 0)), v });
        }
        for x in &hu {
            let v: TalUri = x.uri.clone().into();
            ws.push(W { rsync: false, key: (x.pkey.clone(), x.path.clone()), text: x.text.clone(), hash: guard(|| h(&v)).unwrap_or((0, 0, 0)), v });
        }
        // routes: every way of obtaining the wrapper gives the same value
        for w in &ws {
            let txt = String::from_utf8(w.text.clone()).unwrap();
            let wit = || format!("text={}", s(&w.text));
            let routes: Vec<(&str, Result<Result<TalUri, String>, String>)> = vec![
                ("from_slice", guard(|| TalUri::from_slice(&w.text).map_err(|e| e.to_string()))),
                ("from_string", guard(|| TalUri::from_string(txt.clone()).map_err(|e| e.to_string()))),
                ("from_bytes", guard(|| TalUri::from_bytes(bytes::Bytes::copy_from_slice(&w.text)).map_err(|e| e.to_string()))),
                ("FromStr", guard(|| txt.parse::<TalUri>().map_err(|e| e.to_string()))),
                ("TryFrom<String>", guard(|| TalUri::try_from(txt.clone()).map_err(|e| e.to_string()))),
                ("serde", guard(|| serde_json::to_string(&w.v).map_err(|e| e.to_string()).and_then(|j| serde_json::from_str::<TalUri>(&j).map_err(|e| e.to_string())))),
            ];
            sp.evals(routes.len() as u64);
            for (name, r) in routes {
                match r {
                    Err(p) => fl0.fail("C12.wrappers.taluri.routes", &wit, || format!("{name} panics: {p}")),
                    Ok(Err(e)) => fl0.fail("C12.wrappers.taluri.routes", &wit, || format!("{name} refuses a text the URI parser accepts: {e}")),
                    Ok(Ok(v)) => {
                        if v != w.v || v.as_str().as_bytes() != &w.text[..] || v.is_rsync() != w.rsync || v.is_https() == w.rsync {
                            fl0.fail("C12.wrappers.taluri.routes", &wit, || format!("{name} gives {:?} (as_str {:?}, is_rsync {}), From<the parsed URI> gives {:?}", v, v.as_str(), v.is_rsync(), w.v));
                        }
                        if let Some(d) = hash_diff(h(&v), w.hash) { fl0.fail("C12.wrappers.taluri.hash", &wit, || format!("{name} and From<the parsed URI> give equal values told apart by {d}")) }
                    }
                }
            }
        }
        fl0.flush(&ctx);
        let n = ws.len();
        batched(&ctx, n, 64, |i, fl| {
            let a = &ws[i];
            let (mut ev, mut nt) = (0u64, 0u64); let mut oc: Oc = BTreeMap::new();
            for b in ws.iter() {
                ev += 1;
                let model_eq = a.rsync == b.rsync && a.key == b.key;
                if model_eq && a.text != b.text { nt += 1 }
                bump(&mut oc, if model_eq { "equal" } else { "different" });
                let wit = || format!("a={} b={}", s(&a.text), s(&b.text));
                match guard(|| a.v == b.v) {
                    Err(p) => fl.fail("C12.wrappers.taluri.eq", &wit, || p),
                    Ok(eq) => {
                        if eq != model_eq { fl.fail("C12.wrappers.taluri.eq", &wit, || format!("a == b is {eq}, the text model (scheme and authority case-insensitive, the rest exact) says {model_eq}")) }
                        if eq { if let Some(d) = hash_diff(a.hash, b.hash) { fl.fail("C12.wrappers.taluri.hash", &wit, || format!("equal values told apart by {d}")) } }
                        if eq {
                            let mut set = std::collections::HashSet::new(); set.insert(a.v.clone()); set.insert(b.v.clone());
                            if set.len() != 1 { fl.fail("C12.wrappers.taluri.hash", &wit, || "a HashSet keeps both of two equal values".to_string()) }
                        }
                    }
                }
            }
            sp.evals(ev); sp.nontrivial(nt); sp.merge_outcomes(&oc);
        });
        sp.set("values", json!(n));
        sp.sample_str(|| "a=rsync://a/a/ b=RSYNC://A/a/ : TalUri::Rsync values equal, same hash under all three hashers, one HashSet entry".into());
        sp.done(true, &format!("{n} values (tails <= {wl}) x 6 construction routes; all {n} x {n} ordered pairs"));
        lap(&t0, &sp.name);
    }
    let suppressed = SUPPRESSED.load(AtomicOrdering::Relaxed);
    if suppressed > 0 {
        sp.set("failing_cases_counted_but_not_listed_individually", json!(suppressed));
        println!("note: {suppressed} further failing cases (beyond {ROW_CAP} per oracle and work item) were found but not listed individually");
    }
    ctx.finish();
}
