use rpki_verif::engine::{pki::*, signer::PoolSigner};
use rpki::repository::cert::Overclaim;
fn main() {
    let s = PoolSigner::load();
    let ta = valid_ta(&s, 0, Res::all());
    let ca = valid_ca(&s, &ta, 0, 1, Res { v4: Claim::Blocks(vec![(0x0a000000, 0x0affffff)]), v6: Claim::Inherit, asn: Claim::Blocks(vec![(64512, 64520)]) });
    println!("ca v4 {} as {}", ca.v4_resources().as_v4(), ca.as_resources());
    let ee = build_cert(&s, &Spec::issued(Kind::Ee, 2, 1, ca.subject_key_identifier(), Res { v4: Claim::Blocks(vec![(0x0a000000, 0x0a0000ff)]), v6: Claim::Missing, asn: Claim::Missing }, Overclaim::Refuse));
    let ee = ee.validate_ee_at(&ca, true, time(T0)).unwrap();
    println!("ee v4 {}", ee.v4_resources().as_v4());
    let r = build_cert(&s, &Spec::issued(Kind::Router, 3, 1, ca.subject_key_identifier(), Res { v4: Claim::Missing, v6: Claim::Missing, asn: Claim::Blocks(vec![(64512, 64512)]) }, Overclaim::Refuse));
    println!("router {:?}", r.validate_router_at(&ca, true, time(T0)));
    let mut sp = Spec::issued(Kind::Ee, 2, 1, ca.subject_key_identifier(), Res { v4: Claim::Blocks(vec![(0x0a000000, 0x0a0000ff)]), v6: Claim::Missing, asn: Claim::Missing }, Overclaim::Refuse);
    sp.ski_override = Some(s.ski(5));
    println!("bad ski {:?}", build_cert(&s, &sp).validate_ee_at(&ca, true, time(T0)).map(|_| ()));
    assert_eq!(s.ski(1), s.public(1).key_identifier());
}
