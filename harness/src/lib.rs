//! Shared machinery for the model-checking checks of rpki-rs.
pub mod engine;
pub use engine::report::{Ctx, Space, Tier, guard, watched, WatchScope, note_case, hex, unhex, trunc};
