//! Reference reader for RPKI certificates: reads the fields property C01
//! talks about straight from the octets with the lenient TLV reader of
//! `der.rs`. Neither bcder nor any rpki decoder is involved, so that what a
//! validated certificate *says* can be compared with what the library made
//! of it.
//!
//! The reader understands definite-length encodings only (all of DER, and
//! the BER objects that happen not to use the indefinite form); constructed
//! string spellings are concatenated.

use super::der::{self, Node};

#[derive(Clone, Debug, PartialEq, Eq)]
pub enum RClaim { Inherit, Blocks(Vec<(u128, u128)>) }

#[derive(Clone, Debug, Default)]
pub struct RefCert {
    /// seconds since the epoch
    pub not_before: i64,
    pub not_after: i64,
    /// subjectPublicKey bits (without the unused-bits octet)
    pub key_bits: Vec<u8>,
    /// keyIdentifier octets of every subjectKeyIdentifier extension present
    pub ski: Vec<Vec<u8>>,
    /// keyIdentifier of every authorityKeyIdentifier extension present (None = field absent)
    pub aki: Vec<Option<Vec<u8>>>,
    /// every address family entry of every IP resources extension, in order of appearance;
    /// v4 values are 32-bit numbers, v6 values 128-bit numbers
    pub v4: Vec<RClaim>,
    pub v6: Vec<RClaim>,
    /// every asnum entry of every AS resources extension
    pub asn: Vec<RClaim>,
    /// number of rdi entries and of address families other than 1 and 2
    pub rdi: usize,
    pub other_afi: usize,
    /// certificate policy identifiers (OID content octets)
    pub policies: Vec<Vec<u8>>,
    pub basic_ca: Option<bool>,
    /// OID content octets of all extensions in order
    pub ext_oids: Vec<Vec<u8>>,
    /// extension values with octets after their first TLV
    pub trailing_in_ext_value: usize,
}

pub const OID_SKI: &[u8] = &[0x55, 0x1d, 0x0e];
pub const OID_AKI: &[u8] = &[0x55, 0x1d, 0x23];
pub const OID_BASIC: &[u8] = &[0x55, 0x1d, 0x13];
pub const OID_POLICIES: &[u8] = &[0x55, 0x1d, 0x20];
pub const OID_IP: &[u8] = &[0x2b, 6, 1, 5, 5, 7, 1, 7];
pub const OID_AS: &[u8] = &[0x2b, 6, 1, 5, 5, 7, 1, 8];
pub const OID_IP_V2: &[u8] = &[0x2b, 6, 1, 5, 5, 7, 1, 28];
pub const OID_AS_V2: &[u8] = &[0x2b, 6, 1, 5, 5, 7, 1, 29];
pub const OID_POLICY_REFUSE: &[u8] = &[0x2b, 6, 1, 5, 5, 7, 14, 2];
pub const OID_POLICY_TRIM: &[u8] = &[0x2b, 6, 1, 5, 5, 7, 14, 3];

/// Content of a string-typed value; constructed spellings are concatenated.
fn string_content(n: &Node, buf: &[u8], bits: bool) -> Result<Vec<u8>, String> {
    if !n.constructed() {
        let c = n.content(buf);
        if bits {
            if c.is_empty() { return Err("empty BIT STRING".into()) }
            return Ok(c.to_vec()) // first octet = unused bits
        }
        return Ok(c.to_vec())
    }
    let mut out = Vec::new();
    if bits { out.push(0) }
    for (k, ch) in n.children.iter().enumerate() {
        let part = string_content(ch, buf, bits)?;
        if bits {
            if k + 1 == n.children.len() { out[0] = part[0] } else if part[0] != 0 { return Err("unused bits in inner segment".into()) }
            out.extend_from_slice(&part[1..]);
        } else { out.extend_from_slice(&part) }
    }
    Ok(out)
}

fn days_from_civil(y: i64, m: i64, d: i64) -> i64 {
    let y = if m <= 2 { y - 1 } else { y };
    let era = if y >= 0 { y } else { y - 399 } / 400;
    let yoe = y - era * 400;
    let doy = (153 * (m + if m > 2 { -3 } else { 9 }) + 2) / 5 + d - 1;
    let doe = yoe * 365 + yoe / 4 - yoe / 100 + doy;
    era * 146097 + doe - 719468
}

fn parse_time(n: &Node, buf: &[u8]) -> Result<i64, String> {
    let c = string_content(n, buf, false)?;
    let digits = |s: &[u8]| -> Result<i64, String> {
        let mut v = 0i64;
        for b in s { if !b.is_ascii_digit() { return Err(format!("non-digit in time {:?}", String::from_utf8_lossy(&c))) } v = v * 10 + (b - b'0') as i64 }
        Ok(v)
    };
    let (year, rest) = match n.tag & 0x1f {
        0x17 => { if c.len() != 13 { return Err("UTCTime length".into()) } let yy = digits(&c[..2])?; (if yy >= 50 { 1900 + yy } else { 2000 + yy }, &c[2..]) }
        0x18 => { if c.len() != 15 { return Err("GeneralizedTime length".into()) } (digits(&c[..4])?, &c[4..]) }
        t => return Err(format!("time with tag {t:#x}")),
    };
    if rest[10] != b'Z' { return Err("time without Z".into()) }
    let (mo, d, h, mi, s) = (digits(&rest[0..2])?, digits(&rest[2..4])?, digits(&rest[4..6])?, digits(&rest[6..8])?, digits(&rest[8..10])?);
    if !(1..=12).contains(&mo) || !(1..=31).contains(&d) || h > 23 || mi > 59 || s > 60 { return Err("time field out of range".into()) }
    Ok(days_from_civil(year, mo, d) * 86400 + h * 3600 + mi * 60 + s)
}

fn uint(n: &Node, buf: &[u8]) -> Result<u128, String> {
    if n.tag != der::T_INT { return Err(format!("expected INTEGER, tag {:#x}", n.tag)) }
    let c = n.content(buf);
    if c.is_empty() { return Err("empty INTEGER".into()) }
    if c[0] & 0x80 != 0 { return Err("negative INTEGER".into()) }
    let c: Vec<u8> = c.iter().copied().skip_while(|b| *b == 0).collect();
    if c.len() > 16 { return Err("INTEGER too large".into()) }
    Ok(c.iter().fold(0u128, |a, b| (a << 8) | *b as u128))
}

/// (value left-aligned in `width` bits, number of bits)
fn addr_bits(n: &Node, buf: &[u8], width: u32) -> Result<(u128, u32), String> {
    if n.tag & 0x1f != der::T_BITSTR { return Err(format!("expected BIT STRING, tag {:#x}", n.tag)) }
    let c = string_content(n, buf, true)?;
    let unused = c[0] as u32;
    if unused > 7 { return Err("unused bits > 7".into()) }
    let bytes = &c[1..];
    if bytes.is_empty() && unused != 0 { return Err("unused bits in empty BIT STRING".into()) }
    let nbits = bytes.len() as u32 * 8 - unused;
    if nbits > width { return Err("address longer than the family".into()) }
    let mut v: u128 = 0;
    for (i, b) in bytes.iter().enumerate() { if i < 16 { v |= (*b as u128) << (120 - 8 * i as u32) } }
    // v is left-aligned in 128 bits; drop unused bits, then right-align in `width`
    if nbits < 128 { v &= !(u128::MAX >> nbits) }
    Ok((if width == 128 { v } else { v >> (128 - width) }, nbits))
}

fn ones(width: u32, nbits: u32) -> u128 {
    let host = width - nbits;
    if host == 0 { 0 } else if host == 128 { u128::MAX } else { (1u128 << host) - 1 }
}

fn ip_choice(n: &Node, buf: &[u8], width: u32) -> Result<RClaim, String> {
    if n.tag == der::T_NULL { return Ok(RClaim::Inherit) }
    if n.tag != der::T_SEQ { return Err(format!("ipAddressChoice tag {:#x}", n.tag)) }
    let mut v = Vec::new();
    for it in &n.children {
        if it.tag == der::T_SEQ {
            if it.children.len() != 2 { return Err("IPAddressRange arity".into()) }
            let (lo, _) = addr_bits(&it.children[0], buf, width)?;
            let (hi, hb) = addr_bits(&it.children[1], buf, width)?;
            v.push((lo, hi | ones(width, hb)));
        } else {
            let (a, nb) = addr_bits(it, buf, width)?;
            v.push((a, a | ones(width, nb)));
        }
    }
    Ok(RClaim::Blocks(v))
}

fn as_choice(n: &Node, buf: &[u8]) -> Result<RClaim, String> {
    if n.tag == der::T_NULL { return Ok(RClaim::Inherit) }
    if n.tag != der::T_SEQ { return Err(format!("ASIdentifierChoice tag {:#x}", n.tag)) }
    let mut v = Vec::new();
    for it in &n.children {
        if it.tag == der::T_SEQ {
            if it.children.len() != 2 { return Err("ASRange arity".into()) }
            v.push((uint(&it.children[0], buf)?, uint(&it.children[1], buf)?));
        } else { let a = uint(it, buf)?; v.push((a, a)) }
    }
    Ok(RClaim::Blocks(v))
}

fn first_tlv_len(b: &[u8]) -> Option<usize> {
    if b.len() < 2 || b[0] & 0x1f == 0x1f { return None }
    let (hdr, len) = if b[1] < 0x80 { (2, b[1] as usize) } else {
        let n = (b[1] & 0x7f) as usize;
        if n == 0 || n > 4 || b.len() < 2 + n { return None }
        (2 + n, b[2..2 + n].iter().fold(0usize, |a, x| (a << 8) | *x as usize))
    };
    if hdr + len > b.len() { None } else { Some(hdr + len) }
}

/// Reads one certificate. `Err` means the octets are not something this
/// reader understands (not: that the certificate is invalid).
pub fn read_cert(buf: &[u8]) -> Result<RefCert, String> {
    let root = der::parse_one(buf, false).ok_or("outer TLV structure")?;
    if root.tag != der::T_SEQ || root.children.len() != 3 { return Err("Certificate arity".into()) }
    let tbs = &root.children[0];
    if tbs.tag != der::T_SEQ { return Err("TBSCertificate tag".into()) }
    let mut it = tbs.children.iter().peekable();
    if it.peek().map(|n| n.tag) == Some(0xa0) { it.next(); }
    let _serial = it.next().ok_or("serial")?;
    let _sigalg = it.next().ok_or("signature algorithm")?;
    let _issuer = it.next().ok_or("issuer")?;
    let validity = it.next().ok_or("validity")?;
    let _subject = it.next().ok_or("subject")?;
    let spki = it.next().ok_or("subjectPublicKeyInfo")?;
    let mut out = RefCert::default();
    if validity.tag != der::T_SEQ || validity.children.len() != 2 { return Err("validity arity".into()) }
    out.not_before = parse_time(&validity.children[0], buf)?;
    out.not_after = parse_time(&validity.children[1], buf)?;
    if spki.tag != der::T_SEQ || spki.children.len() != 2 { return Err("subjectPublicKeyInfo arity".into()) }
    let kb = string_content(&spki.children[1], buf, true)?;
    out.key_bits = kb[1..].to_vec();
    for rest in it {
        if rest.tag != 0xa3 { continue }
        if rest.children.len() != 1 { return Err("extensions wrapper".into()) }
        for ext in &rest.children[0].children {
            if ext.tag != der::T_SEQ || ext.children.len() < 2 { return Err("Extension arity".into()) }
            let oid = ext.children[0].content(buf).to_vec();
            let val = string_content(ext.children.last().unwrap(), buf, false)?;
            out.ext_oids.push(oid.clone());
            // The library decodes an extension value with `Mode::Der.decode`, which reads the
            // first value and leaves whatever follows it unread. Trailing octets are therefore
            // not part of what the certificate says; the reader follows the first value only
            // and counts the occurrence.
            let first = first_tlv_len(&val);
            if let Some(n) = first { if n < val.len() { out.trailing_in_ext_value += 1 } }
            let inner = || first.and_then(|n| der::parse_one(&val[..n], false)).ok_or_else(|| format!("extension {} value {} does not start with a TLV", crate::hex(&oid), crate::hex(&val)));
            match oid.as_slice() {
                x if x == OID_SKI => { let n = inner()?; if n.tag & 0x1f != der::T_OCTSTR { return Err("SKI tag".into()) } out.ski.push(string_content(&n, &val, false)?) }
                x if x == OID_AKI => {
                    let n = inner()?;
                    if n.tag != der::T_SEQ { return Err("AKI tag".into()) }
                    let kid = n.children.iter().find(|c| c.tag & 0x1f == 0 && c.tag & 0xc0 == 0x80);
                    out.aki.push(match kid { Some(k) => Some(string_content(k, &val, false)?), None => None });
                }
                x if x == OID_BASIC => {
                    let n = inner()?;
                    out.basic_ca = Some(n.children.first().map(|c| c.tag == der::T_BOOL && c.content(&val).iter().any(|b| *b != 0)).unwrap_or(false));
                }
                x if x == OID_POLICIES => {
                    let n = inner()?;
                    for pi in &n.children { if let Some(p) = pi.children.first() { out.policies.push(p.content(&val).to_vec()) } }
                }
                x if x == OID_IP || x == OID_IP_V2 => {
                    let n = inner()?;
                    if n.tag != der::T_SEQ { return Err("IPAddrBlocks tag".into()) }
                    for fam in &n.children {
                        if fam.tag != der::T_SEQ || fam.children.len() != 2 { return Err("IPAddressFamily arity".into()) }
                        let afi = string_content(&fam.children[0], &val, false)?;
                        match afi.as_slice() {
                            [0, 1] => out.v4.push(ip_choice(&fam.children[1], &val, 32)?),
                            [0, 2] => out.v6.push(ip_choice(&fam.children[1], &val, 128)?),
                            _ => out.other_afi += 1,
                        }
                    }
                }
                x if x == OID_AS || x == OID_AS_V2 => {
                    let n = inner()?;
                    if n.tag != der::T_SEQ { return Err("ASIdentifiers tag".into()) }
                    for c in &n.children {
                        match c.tag {
                            0xa0 => { if c.children.len() != 1 { return Err("asnum arity".into()) } out.asn.push(as_choice(&c.children[0], &val)?) }
                            0xa1 => out.rdi += 1,
                            t => return Err(format!("ASIdentifiers element tag {t:#x}")),
                        }
                    }
                }
                _ => {}
            }
        }
    }
    Ok(out)
}

/// Sorted, merged (overlapping and adjacent) form of a list of closed ranges; inverted ranges are dropped.
pub fn normalise(v: &[(u128, u128)]) -> Vec<(u128, u128)> {
    let mut v: Vec<(u128, u128)> = v.iter().copied().filter(|(a, b)| a <= b).collect();
    v.sort();
    let mut out: Vec<(u128, u128)> = Vec::new();
    for (a, b) in v {
        match out.last_mut() {
            Some(l) if l.1 == u128::MAX || a <= l.1 + 1 => { if b > l.1 { l.1 = b } }
            _ => out.push((a, b)),
        }
    }
    out
}

pub fn intersect(a: &[(u128, u128)], b: &[(u128, u128)]) -> Vec<(u128, u128)> {
    let (a, b) = (normalise(a), normalise(b));
    let mut out = Vec::new();
    for &(x0, x1) in &a { for &(y0, y1) in &b { let (lo, hi) = (x0.max(y0), x1.min(y1)); if lo <= hi { out.push((lo, hi)) } } }
    normalise(&out)
}

pub fn subset(a: &[(u128, u128)], b: &[(u128, u128)]) -> bool { intersect(a, b) == normalise(a) }

/// TBSCertificate rebuilt with its extension list mapped through `f`
/// (`f(oid content, whole extension)` returns the extensions to put in its
/// place). Everything else is copied octet for octet.
pub fn map_extensions(tbs: &[u8], f: &mut dyn FnMut(&[u8], &[u8]) -> Vec<Vec<u8>>) -> Vec<u8> {
    let root = der::parse_one(tbs, false).expect("TBS parses");
    let mut items: Vec<Vec<u8>> = Vec::new();
    for c in &root.children {
        if c.tag != 0xa3 { items.push(c.whole(tbs).to_vec()); continue }
        let mut exts = Vec::new();
        for e in &c.children[0].children { exts.extend(f(e.children[0].content(tbs), e.whole(tbs))) }
        items.push(der::ctx(3, true, &der::seq(&exts)));
    }
    der::seq(&items)
}

pub fn extension(oid: &[u8], critical: bool, value: &[u8]) -> Vec<u8> {
    let mut v = vec![der::tlv(der::T_OID, oid)];
    if critical { v.push(der::boolean(true)) }
    v.push(der::octets(value));
    der::seq(&v)
}

#[cfg(test)]
mod test {
    use super::*;
    #[test]
    fn civil() {
        assert_eq!(days_from_civil(1970, 1, 1), 0);
        assert_eq!(days_from_civil(2023, 11, 14) * 86400 + 22 * 3600 + 13 * 60 + 20, 1_700_000_000);
    }
    #[test]
    fn ranges() {
        assert_eq!(normalise(&[(5, 9), (0, 4), (20, 30), (25, 26)]), vec![(0, 9), (20, 30)]);
        assert!(subset(&[(3, 4)], &[(0, 9)]));
        assert!(!subset(&[(3, 10)], &[(0, 9)]));
        assert_eq!(intersect(&[(0, 10)], &[(5, 20)]), vec![(5, 10)]);
        assert_eq!(normalise(&[(0, u128::MAX), (3, 4)]), vec![(0, u128::MAX)]);
    }
}
