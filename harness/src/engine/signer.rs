//! Deterministic `Signer` over a fixed key pool.
//!
//! RSA key generation (~100 ms) would dominate every object-building
//! enumeration and make runs non-reproducible, so all keys come from
//! `/verif/keys/rsa-<n>.p8` (test material, PKCS#8 DER, committed).
//! RSA PKCS#1 v1.5 signatures are deterministic, so every built object is a
//! pure function of the enumeration index.

use std::io;
use std::sync::atomic::{AtomicUsize, Ordering};
use aws_lc_rs::{digest, encoding, rand, rsa, signature};
use aws_lc_rs::signature::KeyPair as _;
use rpki::crypto::keys::{KeyIdentifier, PublicKey, PublicKeyFormat};
use rpki::crypto::signature::{Signature, SignatureAlgorithm};
use rpki::crypto::signer::{KeyError, Signer, SigningAlgorithm, SigningError};
use crate::engine::report::verif_dir;

pub const POOL_SIZE: usize = 8;

pub struct PoolKey {
    pair: rsa::KeyPair,
    pub spki_der: Vec<u8>,
    pub public: PublicKey,
    /// SHA-1 of the subjectPublicKey BIT STRING content, computed here
    /// (independently of `PublicKey::key_identifier`).
    pub ski: [u8; 20],
}

pub struct PoolSigner {
    pub keys: Vec<PoolKey>,
    next: AtomicUsize,
    rng: rand::SystemRandom,
    ctr: AtomicUsize,
}

#[derive(Clone, Copy, Debug, PartialEq, Eq, Hash, PartialOrd, Ord)]
pub struct Kid(pub usize);

/// Extracts the subjectPublicKey bits from an SPKI DER (SEQ { alg, BIT STRING }).
fn spki_key_bits(spki: &[u8]) -> Vec<u8> {
    let n = crate::engine::der::parse_one(spki, false).expect("spki");
    let bs = &n.children[1];
    bs.content(spki)[1..].to_vec()
}

impl PoolSigner {
    pub fn load() -> PoolSigner {
        let dir = format!("{}/keys", verif_dir());
        let mut keys = Vec::new();
        for i in 0..POOL_SIZE {
            let p = format!("{dir}/rsa-{i}.p8");
            let der = std::fs::read(&p).unwrap_or_else(|e| {
                eprintln!("MACHINERY-ERROR: cannot read {p}: {e}"); std::process::exit(2) });
            let pair = rsa::KeyPair::from_pkcs8(&der).expect("pkcs8 key");
            let spki_der = encoding::AsDer::<encoding::PublicKeyX509Der>::as_der(pair.public_key())
                .expect("spki").as_ref().to_vec();
            let public = PublicKey::decode(spki_der.as_slice()).expect("public key decodes");
            let d = digest::digest(&digest::SHA1_FOR_LEGACY_USE_ONLY, &spki_key_bits(&spki_der));
            let mut ski = [0u8; 20];
            ski.copy_from_slice(d.as_ref());
            keys.push(PoolKey { pair, spki_der, public, ski });
        }
        PoolSigner { keys, next: AtomicUsize::new(0), rng: rand::SystemRandom::new(), ctr: AtomicUsize::new(0) }
    }

    pub fn key(&self, i: usize) -> &PoolKey { &self.keys[i % self.keys.len()] }
    pub fn kid(&self, i: usize) -> Kid { Kid(i % self.keys.len()) }
    pub fn public(&self, i: usize) -> PublicKey { self.key(i).public.clone() }
    pub fn ski(&self, i: usize) -> KeyIdentifier { KeyIdentifier::from(self.key(i).ski) }

    /// RSA PKCS#1 v1.5 SHA-256 signature by aws-lc directly.
    pub fn sign_raw(&self, i: usize, data: &[u8]) -> Vec<u8> {
        let k = self.key(i);
        let mut sig = vec![0u8; k.pair.public_modulus_len()];
        k.pair.sign(&signature::RSA_PKCS1_SHA256, &self.rng, data, &mut sig).expect("sign");
        sig
    }
}

pub fn sha256(data: &[u8]) -> Vec<u8> { digest::digest(&digest::SHA256, data).as_ref().to_vec() }
pub fn sha1(data: &[u8]) -> Vec<u8> { digest::digest(&digest::SHA1_FOR_LEGACY_USE_ONLY, data).as_ref().to_vec() }

impl Signer for PoolSigner {
    type KeyId = Kid;
    type Error = io::Error;

    /// Hands out pool keys round-robin instead of generating.
    fn create_key(&self, algorithm: PublicKeyFormat) -> Result<Kid, io::Error> {
        if algorithm != PublicKeyFormat::Rsa { return Err(io::Error::other("invalid algorithm")) }
        Ok(Kid(self.next.fetch_add(1, Ordering::Relaxed) % self.keys.len()))
    }

    fn get_key_info(&self, key: &Kid) -> Result<PublicKey, KeyError<io::Error>> {
        self.keys.get(key.0).map(|k| k.public.clone()).ok_or(KeyError::KeyNotFound)
    }

    fn destroy_key(&self, key: &Kid) -> Result<(), KeyError<io::Error>> {
        if key.0 < self.keys.len() { Ok(()) } else { Err(KeyError::KeyNotFound) }
    }

    fn sign<Alg: SignatureAlgorithm, D: AsRef<[u8]> + ?Sized>(
        &self, key: &Kid, algorithm: Alg, data: &D
    ) -> Result<Signature<Alg>, SigningError<io::Error>> {
        if key.0 >= self.keys.len() { return Err(SigningError::KeyNotFound) }
        if !matches!(algorithm.signing_algorithm(), SigningAlgorithm::RsaSha256) {
            return Err(SigningError::IncompatibleKey)
        }
        Ok(Signature::new(algorithm, self.sign_raw(key.0, data.as_ref()).into()))
    }

    /// One-off keys are the last pool key (deterministic, never generated).
    fn sign_one_off<Alg: SignatureAlgorithm, D: AsRef<[u8]> + ?Sized>(
        &self, algorithm: Alg, data: &D
    ) -> Result<(Signature<Alg>, PublicKey), io::Error> {
        let i = self.keys.len() - 1;
        if !matches!(algorithm.signing_algorithm(), SigningAlgorithm::RsaSha256) {
            return Err(io::Error::other("invalid algorithm"))
        }
        Ok((Signature::new(algorithm, self.sign_raw(i, data.as_ref()).into()), self.keys[i].public.clone()))
    }

    /// Deterministic "random" octets (a counter), so runs are reproducible.
    fn rand(&self, target: &mut [u8]) -> Result<(), io::Error> {
        let c = self.ctr.fetch_add(1, Ordering::Relaxed) as u64;
        for (i, b) in target.iter_mut().enumerate() {
            *b = (c.wrapping_mul(0x9E37_79B9_7F4A_7C15).rotate_left((i % 61) as u32) >> 8) as u8 ^ (i as u8);
        }
        Ok(())
    }
}

/// Generates the key pool (run once; the files are committed).
pub fn generate_pool() {
    let dir = format!("{}/keys", verif_dir());
    std::fs::create_dir_all(&dir).unwrap();
    for i in 0..POOL_SIZE {
        let p = format!("{dir}/rsa-{i}.p8");
        if std::path::Path::new(&p).exists() { continue }
        let pair = rsa::KeyPair::generate(rsa::KeySize::Rsa2048).expect("generate");
        let der = encoding::AsDer::<encoding::Pkcs8V1Der>::as_der(&pair).expect("pkcs8");
        std::fs::write(&p, der.as_ref()).unwrap();
        println!("wrote {p}");
    }
    // two P-256 public keys for router certificates (SPKI DER)
    for i in 0..2 {
        let p = format!("{dir}/ec-{i}.spki");
        if std::path::Path::new(&p).exists() { continue }
        let rng = rand::SystemRandom::new();
        let doc = signature::EcdsaKeyPair::generate_pkcs8(&signature::ECDSA_P256_SHA256_ASN1_SIGNING, &rng).expect("ec");
        let pair = signature::EcdsaKeyPair::from_pkcs8(&signature::ECDSA_P256_SHA256_ASN1_SIGNING, doc.as_ref()).expect("ec");
        let spki = encoding::AsDer::<encoding::PublicKeyX509Der>::as_der(pair.public_key()).expect("spki");
        std::fs::write(&p, spki.as_ref()).unwrap();
        std::fs::write(format!("{dir}/ec-{i}.p8"), doc.as_ref()).unwrap();
        println!("wrote {p}");
    }
}

/// P-256 public key for router certificates.
pub fn ec_public(i: usize) -> PublicKey {
    let p = format!("{}/keys/ec-{}.spki", verif_dir(), i % 2);
    let der = std::fs::read(&p).expect("ec key");
    PublicKey::decode(der.as_slice()).expect("ec public key decodes")
}
