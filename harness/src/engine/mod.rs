pub mod report;
pub mod enumerate;
pub mod der;
pub mod sched;
pub mod signer;
pub mod mutate;
