pub mod report;
pub mod enumerate;
pub mod der;
pub mod signer;
pub mod pki;
pub mod certref;
