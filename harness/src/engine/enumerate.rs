//! E1 — exhaustive enumerators over explicit finite alphabets.
//!
//! Everything here is deterministic; ordering is simplest-first so that the
//! first counterexample is also the shortest.

use rayon::prelude::*;

/// Number of sequences of length 0..=max_len over an alphabet of k symbols.
pub fn seq_count(k: u64, max_len: u32) -> u64 {
    (0..=max_len).map(|n| k.pow(n)).sum()
}

/// Decodes the idx-th sequence (shortlex order) over k symbols.
pub fn seq_at(k: u64, max_len: u32, mut idx: u64, out: &mut Vec<usize>) {
    out.clear();
    let mut n = 0u32;
    loop {
        let c = k.pow(n);
        if idx < c { break }
        idx -= c; n += 1;
        assert!(n <= max_len, "index out of range");
    }
    for _ in 0..n { out.push((idx % k) as usize); idx /= k; }
    out.reverse();
}

/// Runs `f(index)` for all indexes below `total` on all cores.
pub fn par_for(total: u64, f: impl Fn(u64) + Sync + Send) {
    (0..total).into_par_iter().for_each(|i| f(i));
}

/// Runs `f(chunk_start, chunk_end)` over [0,total) split into chunks (for hot
/// loops that keep local counters).
pub fn par_chunks(total: u64, chunk: u64, f: impl Fn(u64, u64) + Sync + Send) {
    let n = total.div_ceil(chunk);
    (0..n).into_par_iter().for_each(|c| {
        let a = c * chunk; let b = (a + chunk).min(total);
        f(a, b)
    });
}

/// All subsets of {0..n} as bitmasks, ascending.
pub fn subsets(n: u32) -> impl Iterator<Item = u32> { 0..(1u32 << n) }

/// Heap's algorithm: all permutations of 0..n.
pub fn permutations(n: usize) -> Vec<Vec<usize>> {
    fn rec(k: usize, a: &mut Vec<usize>, out: &mut Vec<Vec<usize>>) {
        if k <= 1 { out.push(a.clone()); return }
        for i in 0..k {
            rec(k - 1, a, out);
            if k % 2 == 0 { a.swap(i, k - 1) } else { a.swap(0, k - 1) }
        }
    }
    let mut a: Vec<usize> = (0..n).collect();
    let mut out = Vec::new();
    rec(n, &mut a, &mut out);
    out.sort();
    out
}

/// All ways to cut `len` octets into at most `max_cuts`+1 non-empty chunks,
/// as sorted lists of cut positions in 1..len.
pub fn cuts(len: usize, max_cuts: usize) -> Vec<Vec<usize>> {
    let mut out = vec![vec![]];
    fn rec(start: usize, len: usize, left: usize, cur: &mut Vec<usize>, out: &mut Vec<Vec<usize>>) {
        if left == 0 { return }
        for p in start..len {
            cur.push(p);
            out.push(cur.clone());
            rec(p + 1, len, left - 1, cur, out);
            cur.pop();
        }
    }
    rec(1, len, max_cuts, &mut vec![], &mut out);
    out
}

#[cfg(test)]
mod test {
    use super::*;
    #[test]
    fn seqs() {
        assert_eq!(seq_count(3, 2), 13);
        let mut v = Vec::new();
        seq_at(3, 2, 0, &mut v); assert!(v.is_empty());
        seq_at(3, 2, 1, &mut v); assert_eq!(v, [0]);
        seq_at(3, 2, 4, &mut v); assert_eq!(v, [0, 0]);
        seq_at(3, 2, 12, &mut v); assert_eq!(v, [2, 2]);
        assert_eq!(permutations(3).len(), 6);
        assert_eq!(cuts(4, 2).len(), 1 + 3 + 3);
    }
}
