//! Evidence, violations, known-findings matching, exit codes.
//!
//! Exit codes: 0 = property held on everything explored (possibly with
//! KNOWN-FINDING lines), 1 = at least one unlisted violation, 2 = machinery
//! error (never a verdict).

use std::collections::BTreeMap;
use std::panic::{self, AssertUnwindSafe};
use std::sync::atomic::{AtomicU64, Ordering};
use std::sync::{Arc, Mutex};
use std::time::Instant;
use std::cell::RefCell;
use serde_json::{json, Value};

#[derive(Clone, Copy, Debug, PartialEq, Eq)]
pub enum Tier { Quick, Thorough }

impl Tier {
    pub fn name(self) -> &'static str {
        match self { Tier::Quick => "quick", Tier::Thorough => "thorough" }
    }
    pub fn pick<T>(self, quick: T, thorough: T) -> T {
        match self { Tier::Quick => quick, Tier::Thorough => thorough }
    }
    pub fn is_thorough(self) -> bool { self == Tier::Thorough }
}

#[derive(Clone, Debug)]
pub struct Violation {
    pub oracle: String,
    pub witness: String,
    pub detail: String,
}

#[derive(Clone, Debug)]
struct Known {
    oracle: String,
    witness_glob: String,
    what: String,
}

/// One enumerated space of a check.
pub struct Space {
    pub name: String,
    pub rule: String,
    evals: AtomicU64,
    nontrivial: AtomicU64,
    states: AtomicU64,
    transitions: AtomicU64,
    traces: AtomicU64,
    outcomes: Mutex<BTreeMap<String, u64>>,
    samples: Mutex<Vec<Value>>,
    done: Mutex<Option<(bool, String)>>,
    extra: Mutex<BTreeMap<String, Value>>,
}

impl Space {
    pub fn evals(&self, n: u64) { self.evals.fetch_add(n, Ordering::Relaxed); }
    pub fn eval(&self) { self.evals(1) }
    pub fn nontrivial(&self, n: u64) { self.nontrivial.fetch_add(n, Ordering::Relaxed); }
    pub fn states(&self, n: u64) { self.states.fetch_add(n, Ordering::Relaxed); }
    pub fn transitions(&self, n: u64) { self.transitions.fetch_add(n, Ordering::Relaxed); }
    pub fn traces(&self, n: u64) { self.traces.fetch_add(n, Ordering::Relaxed); }
    pub fn get_evals(&self) -> u64 { self.evals.load(Ordering::Relaxed) }
    pub fn get_nontrivial(&self) -> u64 { self.nontrivial.load(Ordering::Relaxed) }
    /// Records an observed outcome class (used by the vacuity guard).
    pub fn outcome(&self, name: &str) { self.outcomes_n(name, 1) }
    pub fn outcomes_n(&self, name: &str, n: u64) {
        if n == 0 { return }
        let mut o = self.outcomes.lock().unwrap();
        if let Some(v) = o.get_mut(name) { *v += n } else { o.insert(name.to_string(), n); }
    }
    /// Merge a locally collected outcome map (cheap for hot loops).
    pub fn merge_outcomes(&self, local: &BTreeMap<&'static str, u64>) {
        let mut o = self.outcomes.lock().unwrap();
        for (k, v) in local { *o.entry(k.to_string()).or_insert(0) += *v; }
    }
    /// Keeps the first few samples.
    pub fn sample<F: FnOnce() -> Value>(&self, f: F) {
        let mut s = self.samples.lock().unwrap();
        if s.len() < 4 { s.push(f()); }
    }
    pub fn sample_str<F: FnOnce() -> String>(&self, f: F) {
        self.sample(|| Value::String(f()))
    }
    pub fn set(&self, key: &str, v: Value) {
        self.extra.lock().unwrap().insert(key.to_string(), v);
    }
    /// Declares the space finished: `exhaustive` = the stated finite space
    /// was enumerated completely; `bound` = the bound that was completed.
    pub fn done(&self, exhaustive: bool, bound: &str) {
        *self.done.lock().unwrap() = Some((exhaustive, bound.to_string()));
    }
    pub fn distinct_outcomes(&self) -> usize { self.outcomes.lock().unwrap().len() }
}

pub struct Ctx {
    pub id: &'static str,
    pub tier: Tier,
    pub seed: u64,
    pub level: &'static str,
    start: Instant,
    spaces: Arc<Mutex<Vec<Arc<Space>>>>,
    violations: Mutex<Vec<Violation>>,
    viol_count: AtomicU64,
    known_hits: Mutex<BTreeMap<usize, u64>>,
    per_oracle: Mutex<BTreeMap<String, u64>>,
    known: Vec<Known>,
    assumptions: Mutex<Vec<String>>,
    machinery: Mutex<Vec<String>>,
    /// replay filter: (oracle, witness)
    pub replay: Option<(String, String)>,
    replay_hit: AtomicU64,
}

thread_local! {
    static LAST_PANIC: RefCell<Option<String>> = const { RefCell::new(None) };
}

pub fn verif_dir() -> String {
    std::env::var("VERIF_DIR").unwrap_or_else(|_| "/verif".to_string())
}

pub fn repo_dir() -> String {
    std::env::var("VERIF_REPO").unwrap_or_else(|_| "/repo".to_string())
}

fn glob_match(pat: &str, s: &str) -> bool {
    // '*' matches any run of characters; everything else literal.
    let parts: Vec<&str> = pat.split('*').collect();
    if parts.len() == 1 { return pat == s }
    let mut pos = 0usize;
    for (i, p) in parts.iter().enumerate() {
        if i == 0 {
            if !s.starts_with(p) { return false }
            pos = p.len();
        } else if i == parts.len() - 1 {
            if p.is_empty() { return true }
            return s.len() >= pos + p.len() && s[pos..].ends_with(p);
        } else {
            match s[pos..].find(p) {
                Some(k) => pos += k + p.len(),
                None => return false,
            }
        }
    }
    true
}

fn load_known(id: &str) -> Vec<Known> {
    let path = format!("{}/known_findings.txt", verif_dir());
    let text = std::fs::read_to_string(&path).unwrap_or_default();
    let mut out = Vec::new();
    for line in text.lines() {
        let line = line.trim();
        let Some(rest) = line.strip_prefix("known:") else { continue };
        // known: property=<ID> oracle=<name> witness=<glob> :: <what fails>
        let (head, what) = match rest.split_once("::") {
            Some((h, w)) => (h.trim(), w.trim().to_string()),
            None => (rest.trim(), String::new()),
        };
        let mut prop = ""; let mut oracle = ""; let mut wit = "*";
        for tok in head.split_whitespace() {
            if let Some(v) = tok.strip_prefix("property=") { prop = v }
            else if let Some(v) = tok.strip_prefix("oracle=") { oracle = v }
            else if let Some(v) = tok.strip_prefix("witness=") { wit = v }
        }
        if prop == id && !oracle.is_empty() {
            out.push(Known { oracle: oracle.into(), witness_glob: wit.into(), what });
        }
    }
    out
}

/// Installs a panic hook that records message and location instead of
/// printing; the "no panic" oracles read it back.
pub fn install_quiet_panic_hook() {
    panic::set_hook(Box::new(|info| {
        let msg = if let Some(s) = info.payload().downcast_ref::<&str>() { s.to_string() }
            else if let Some(s) = info.payload().downcast_ref::<String>() { s.clone() }
            else { "<non-string panic>".to_string() };
        let loc = info.location().map(|l| format!("{}:{}", l.file(), l.line())).unwrap_or_default();
        LAST_PANIC.with(|p| *p.borrow_mut() = Some(format!("panic at {loc}: {msg}")));
    }));
}

/// Runs `f`, turning an unwind into `Err(description)`.
///
/// Every guarded call is also visible to the runaway watchdog (below): the
/// thread's slot counts entries and exits, so a call that neither returns nor
/// makes a nested guarded call while its thread keeps burning CPU is noticed.
pub fn guard<T>(f: impl FnOnce() -> T) -> Result<T, String> {
    MY_SLOT.with(|s| { s.depth.fetch_add(1, Ordering::Relaxed); s.generation.fetch_add(1, Ordering::Relaxed); });
    let r = panic::catch_unwind(AssertUnwindSafe(f));
    MY_SLOT.with(|s| { s.generation.fetch_add(1, Ordering::Relaxed); s.depth.fetch_sub(1, Ordering::Relaxed); });
    match r {
        Ok(v) => Ok(v),
        Err(_) => Err(LAST_PANIC.with(|p| p.borrow_mut().take()).unwrap_or_else(|| "panic".into())),
    }
}

/// A stretch of execution visible to the runaway watchdog: entered here, left on drop
/// (also when unwinding). For drivers that catch panics themselves.
pub struct WatchScope(());

impl WatchScope {
    pub fn enter() -> WatchScope {
        MY_SLOT.with(|s| { s.depth.fetch_add(1, Ordering::Relaxed); s.generation.fetch_add(1, Ordering::Relaxed); });
        WatchScope(())
    }
}

impl Drop for WatchScope {
    fn drop(&mut self) { MY_SLOT.with(|s| { s.generation.fetch_add(1, Ordering::Relaxed); s.depth.fetch_sub(1, Ordering::Relaxed); }); }
}

/// Makes a call visible to the runaway watchdog without catching unwinds
/// (for drivers that run library code on an executor which catches panics itself).
pub fn watched<T>(f: impl FnOnce() -> T) -> T {
    let _scope = WatchScope::enter();
    f()
}

//------------ runaway watchdog ------------------------------------------------
//
// The explorers run the library in-process. A library call that loops forever
// without yielding (no panic, no poll, no progress) would make the explorer
// itself hang, and a hung check is not a verdict. The watchdog turns it into
// one: every thread that ever entered `guard` owns a slot {generation, depth,
// CPU clock of the thread}; a watchdog thread samples the slots once a second
// and, for a slot that stays inside the SAME guarded call (depth > 0,
// generation unchanged), adds up the CPU time the thread consumed meanwhile.
// CPU time of the thread, not wall time: machine load, a stopped process or a
// slow disk cannot raise the alarm. Above the limit (VERIF_RUNAWAY_CPU_S;
// default 120 s quick / 900 s thorough, far above the total per-thread CPU
// time of a whole run on the unchanged tree) the run ends with a VIOLATION
// naming the case the thread had noted (`note_case`).

#[repr(align(128))]
struct Slot {
    generation: AtomicU64,
    depth: AtomicU64,
    dead: AtomicU64,
    cpu_clock: libc::clockid_t,
    case: Mutex<String>,
}

static SLOTS: Mutex<Vec<Arc<Slot>>> = Mutex::new(Vec::new());

/// The thread's handle on its slot; dropping it (thread exit) marks the slot dead so
/// that the watchdog forgets it (explorers that run cases on fresh OS threads create many).
struct SlotHandle(Arc<Slot>);

impl std::ops::Deref for SlotHandle { type Target = Slot; fn deref(&self) -> &Slot { &self.0 } }

impl Drop for SlotHandle { fn drop(&mut self) { self.0.dead.store(1, Ordering::Relaxed); } }

thread_local! {
    static MY_SLOT: SlotHandle = {
        let mut cid: libc::clockid_t = 0;
        // SAFETY: pthread_self() is the calling thread; cid is a valid out pointer.
        let rc = unsafe { libc::pthread_getcpuclockid(libc::pthread_self(), &mut cid) };
        let slot = Arc::new(Slot { generation: AtomicU64::new(0), depth: AtomicU64::new(0), dead: AtomicU64::new(0), cpu_clock: if rc == 0 { cid } else { -1 }, case: Mutex::new(String::new()) });
        SLOTS.lock().unwrap().push(slot.clone());
        SlotHandle(slot)
    };
}

/// Notes which case the calling thread is working on (call it once per work
/// unit, not per evaluation). Only read if the watchdog has to report.
pub fn note_case(f: impl FnOnce() -> String) {
    MY_SLOT.with(|s| *s.case.lock().unwrap() = f());
}

fn thread_cpu_s(cid: libc::clockid_t) -> Option<f64> {
    if cid == -1 { return None }
    let mut ts = libc::timespec { tv_sec: 0, tv_nsec: 0 };
    // SAFETY: ts is a valid out pointer; an exited thread's clock id makes the call fail, which is handled.
    if unsafe { libc::clock_gettime(cid, &mut ts) } != 0 { return None }
    Some(ts.tv_sec as f64 + ts.tv_nsec as f64 / 1e9)
}

fn spawn_watchdog(id: &'static str, level: &'static str, tier: Tier, spaces: Arc<Mutex<Vec<Arc<Space>>>>, start: Instant) {
    static STARTED: std::sync::Once = std::sync::Once::new();
    STARTED.call_once(|| {
        let limit: f64 = std::env::var("VERIF_RUNAWAY_CPU_S").ok().and_then(|v| v.parse().ok()).unwrap_or(tier.pick(120.0, 900.0));
        let _ = std::thread::Builder::new().name("runaway-watchdog".into()).spawn(move || {
            // per live slot (by address): (generation last seen, CPU seconds of the thread when that generation was first seen)
            let mut seen: std::collections::HashMap<usize, (u64, f64)> = std::collections::HashMap::new();
            loop {
                std::thread::sleep(std::time::Duration::from_millis(1000));
                let slots: Vec<Arc<Slot>> = { let mut g = SLOTS.lock().unwrap(); g.retain(|s| s.dead.load(Ordering::Relaxed) == 0); g.clone() };
                let live: std::collections::HashSet<usize> = slots.iter().map(|s| Arc::as_ptr(s) as usize).collect();
                seen.retain(|k, _| live.contains(k));
                for s in slots.iter() {
                    let key = Arc::as_ptr(s) as usize;
                    let g = s.generation.load(Ordering::Relaxed);
                    if s.dead.load(Ordering::Relaxed) != 0 { continue }
                    let Some(cpu) = thread_cpu_s(s.cpu_clock) else { continue };
                    let Some(prev) = seen.get(&key).copied() else { seen.insert(key, (g, cpu)); continue };
                    if s.depth.load(Ordering::Relaxed) == 0 || prev.0 != g { seen.insert(key, (g, cpu)); continue }
                    let burnt = cpu - prev.1;
                    if burnt <= limit { continue }
                    // one guarded library call has consumed `burnt` CPU seconds without returning
                    let case = s.case.lock().map(|c| c.clone()).unwrap_or_default();
                    let witness = if case.is_empty() { "(the explorer notes no case label for this work unit)".to_string() } else { case };
                    let oracle = format!("{id}.process.runaway_call");
                    let detail = format!("one guarded library call has consumed {burnt:.0} s of CPU time on its thread without returning, panicking or making another guarded call (limit {limit:.0} s; the whole {} tier needs less than that per thread on the unchanged tree): the library loops or spins", tier.name());
                    let vd = std::env::var("VERIF_OUT_DIR").unwrap_or_else(|_| verif_dir());
                    let _ = std::fs::create_dir_all(format!("{vd}/replays"));
                    let path = format!("{vd}/replays/{id}-{}-{:016x}.json", oracle, fnv(&format!("{oracle}|{witness}")));
                    let body = json!({"property": id, "tier": tier.name(), "oracle": oracle, "witness": witness, "detail": detail});
                    let _ = std::fs::write(&path, serde_json::to_string_pretty(&body).unwrap() + "\n");
                    let (mut evals, mut nontriv, mut st, mut tr, mut tc) = (0u64, 0u64, 0u64, 0u64, 0u64);
                    let mut names = Vec::new();
                    if let Ok(sp) = spaces.lock() { for x in sp.iter() {
                        evals += x.evals.load(Ordering::Relaxed); nontriv += x.nontrivial.load(Ordering::Relaxed);
                        st += x.states.load(Ordering::Relaxed); tr += x.transitions.load(Ordering::Relaxed); tc += x.traces.load(Ordering::Relaxed);
                        names.push(x.name.clone());
                    } }
                    let mut coverage = json!({
                        // explorers that batch their counters have reported nothing yet: the execution that did not return counts
                        "evaluations": evals.max(1), "distinct_nontrivial": nontriv.max(1), "exhaustive": false,
                        "rule": format!("run ended by the runaway-call watchdog (counts: what the spaces had reported so far, at least the one execution that did not return); spaces started: {}", names.join(", ")),
                        "samples": [witness.clone()],
                    });
                    if level == "model_checking" { coverage["states"] = json!(st); coverage["transitions"] = json!(tr); coverage["traces_validated_against_impl"] = json!(tc); }
                    let ev = json!({"property_id": id, "tier": tier.name(), "seed": 0, "level": level, "coverage": coverage,
                        "assumptions": ["run ended early: a library call did not return"], "wall_s": (start.elapsed().as_secs_f64() * 1000.0).round() / 1000.0, "violations": 1});
                    if !std::env::args().any(|a| a == "--replay") {
                        let _ = std::fs::create_dir_all(format!("{vd}/evidence"));
                        let _ = std::fs::write(format!("{vd}/evidence/{id}.json"), serde_json::to_string_pretty(&ev).unwrap() + "\n");
                    }
                    println!("VIOLATION property={id} replay={path} oracle={oracle} witness={} detail={}", trunc(&witness, 300), trunc(&detail, 300));
                    println!("{id}: tier={} ended by the runaway-call watchdog after {:.1}s violations=1", tier.name(), start.elapsed().as_secs_f64());
                    std::process::exit(1);
                }
            }
        });
    });
}

fn fnv(s: &str) -> u64 {
    let mut h = 0xcbf29ce484222325u64;
    for b in s.bytes() { h ^= b as u64; h = h.wrapping_mul(0x100000001b3); }
    h
}

impl Ctx {
    pub fn new(id: &'static str, level: &'static str) -> Ctx {
        install_quiet_panic_hook();
        let args: Vec<String> = std::env::args().collect();
        let mut tier = match std::env::var("VERIF_TIER").ok().as_deref() {
            Some("thorough") => Tier::Thorough, _ => Tier::Quick,
        };
        let mut replay = None;
        let mut i = 1;
        while i < args.len() {
            match args[i].as_str() {
                "quick" => tier = Tier::Quick,
                "thorough" => tier = Tier::Thorough,
                "--replay" => {
                    i += 1;
                    let p = args.get(i).cloned().unwrap_or_default();
                    let text = std::fs::read_to_string(&p).unwrap_or_else(|e| {
                        eprintln!("machinery: cannot read replay {p}: {e}"); std::process::exit(2) });
                    let v: Value = serde_json::from_str(&text).unwrap_or_else(|e| {
                        eprintln!("machinery: bad replay {p}: {e}"); std::process::exit(2) });
                    if v["tier"] == "thorough" { tier = Tier::Thorough } else { tier = Tier::Quick }
                    replay = Some((v["oracle"].as_str().unwrap_or("").to_string(),
                                   v["witness"].as_str().unwrap_or("").to_string()));
                }
                _ => {}
            }
            i += 1;
        }
        let seed = std::env::var("VERIF_SEED").ok().and_then(|s| s.parse().ok()).unwrap_or(0);
        let start = Instant::now();
        let spaces = Arc::new(Mutex::new(Vec::new()));
        spawn_watchdog(id, level, tier, spaces.clone(), start);
        Ctx {
            id, tier, seed, level, start,
            spaces, violations: Mutex::new(Vec::new()),
            viol_count: AtomicU64::new(0), known_hits: Mutex::new(BTreeMap::new()),
            per_oracle: Mutex::new(BTreeMap::new()),
            known: load_known(id), assumptions: Mutex::new(Vec::new()),
            machinery: Mutex::new(Vec::new()), replay, replay_hit: AtomicU64::new(0),
        }
    }

    pub fn space(&self, name: &str, rule: &str) -> Arc<Space> {
        let s = Arc::new(Space {
            name: name.into(), rule: rule.into(), evals: AtomicU64::new(0), nontrivial: AtomicU64::new(0),
            states: AtomicU64::new(0), transitions: AtomicU64::new(0), traces: AtomicU64::new(0),
            outcomes: Mutex::new(BTreeMap::new()), samples: Mutex::new(Vec::new()),
            done: Mutex::new(None), extra: Mutex::new(BTreeMap::new()),
        });
        self.spaces.lock().unwrap().push(s.clone());
        s
    }

    pub fn assume(&self, s: &str) { self.assumptions.lock().unwrap().push(s.to_string()); }

    /// A failure of the machinery itself (never a verdict): exit 2 at the end.
    pub fn machinery_error(&self, s: impl Into<String>) {
        let s = s.into();
        eprintln!("MACHINERY-ERROR: {s}");
        self.machinery.lock().unwrap().push(s);
    }

    /// Reports that `oracle` failed on `witness`.
    pub fn fail(&self, oracle: &str, witness: impl Into<String>, detail: impl Into<String>) {
        let witness = witness.into();
        let detail = detail.into();
        if let Some((o, w)) = &self.replay {
            if o == oracle && *w == witness { self.replay_hit.fetch_add(1, Ordering::Relaxed); }
        }
        for (i, k) in self.known.iter().enumerate() {
            if k.oracle == oracle && glob_match(&k.witness_glob, &witness) {
                *self.known_hits.lock().unwrap().entry(i).or_insert(0) += 1;
                return;
            }
        }
        self.viol_count.fetch_add(1, Ordering::Relaxed);
        let mut po = self.per_oracle.lock().unwrap();
        let n = po.entry(oracle.to_string()).or_insert(0);
        *n += 1;
        if *n <= 3 {
            self.violations.lock().unwrap().push(Violation { oracle: oracle.into(), witness, detail });
        }
    }

    /// Runs one oracle evaluation under a panic guard. `f` returns
    /// `Err(detail)` when the oracle is violated; a panic is a violation too.
    pub fn check(&self, oracle: &str, witness: impl FnOnce() -> String, f: impl FnOnce() -> Result<(), String>) -> bool {
        match guard(f) {
            Ok(Ok(())) => true,
            Ok(Err(d)) => { self.fail(oracle, witness(), d); false }
            Err(p) => { self.fail(oracle, witness(), p); false }
        }
    }

    pub fn violations_so_far(&self) -> u64 { self.viol_count.load(Ordering::Relaxed) }

    /// Writes evidence, prints verdict lines, exits.
    pub fn finish(&self) -> ! {
        let wall = self.start.elapsed().as_secs_f64();
        let spaces = self.spaces.lock().unwrap();
        let mut evals = 0u64; let mut nontriv = 0u64; let mut states = 0u64; let mut trans = 0u64; let mut traces = 0u64;
        let mut samples: Vec<Value> = Vec::new();
        let mut exhaustive = true;
        let mut sp_json = Vec::new();
        let mut rules = Vec::new();
        for s in spaces.iter() {
            let e = s.evals.load(Ordering::Relaxed);
            let n = s.nontrivial.load(Ordering::Relaxed);
            evals += e; nontriv += n;
            states += s.states.load(Ordering::Relaxed);
            trans += s.transitions.load(Ordering::Relaxed);
            traces += s.traces.load(Ordering::Relaxed);
            let done = s.done.lock().unwrap().clone();
            let (ex, bound) = match done {
                Some(d) => d,
                None => {
                    self.machinery_error(format!("space {} was not completed", s.name));
                    (false, "incomplete".into())
                }
            };
            exhaustive &= ex;
            for v in s.samples.lock().unwrap().iter().take(2) {
                samples.push(json!({"space": s.name, "case": v}));
            }
            let outcomes = s.outcomes.lock().unwrap().clone();
            // A single outcome class means the space exercised nothing - unless the run
            // already reports violations: a broken library may well answer everything the
            // same way, and that is a verdict (exit 1), not a machinery problem (exit 2).
            if e > 1 && outcomes.len() == 1 && self.replay.is_none() && self.violations_so_far() == 0 {
                self.machinery_error(format!("vacuous space {}: {} evaluations, one outcome class {:?}", s.name, e, outcomes.keys().next()));
            }
            if e == 0 && self.replay.is_none() {
                self.machinery_error(format!("empty space {}", s.name));
            }
            rules.push(format!("[{}] {}", s.name, s.rule));
            let mut j = json!({
                "name": s.name, "rule": s.rule, "evaluations": e, "distinct_nontrivial": n,
                "exhaustive": ex, "bound_completed": bound, "outcomes": outcomes,
            });
            let st = s.states.load(Ordering::Relaxed);
            if st > 0 {
                j["states"] = json!(st);
                j["transitions"] = json!(s.transitions.load(Ordering::Relaxed));
                j["traces_validated_against_impl"] = json!(s.traces.load(Ordering::Relaxed));
            }
            for (k, v) in s.extra.lock().unwrap().iter() { j[k] = v.clone(); }
            sp_json.push(j);
        }
        let viols = self.violations.lock().unwrap();
        let nviol = self.viol_count.load(Ordering::Relaxed);
        let known_hits = self.known_hits.lock().unwrap();
        let mut coverage = json!({
            "evaluations": evals,
            "distinct_nontrivial": nontriv,
            "rule": rules.join(" | "),
            "samples": samples,
            "exhaustive": exhaustive,
            "spaces": sp_json,
            "known_findings_hit": known_hits.iter().map(|(i, n)| json!({"oracle": self.known[*i].oracle, "witness": self.known[*i].witness_glob, "count": n})).collect::<Vec<_>>(),
            "violations_by_oracle": *self.per_oracle.lock().unwrap(),
        });
        if self.level == "model_checking" {
            coverage["states"] = json!(states);
            coverage["transitions"] = json!(trans);
            coverage["traces_validated_against_impl"] = json!(traces);
        }
        let ev = json!({
            "property_id": self.id,
            "tier": self.tier.name(),
            "seed": self.seed,
            "level": self.level,
            "coverage": coverage,
            "assumptions": *self.assumptions.lock().unwrap(),
            "wall_s": (wall * 1000.0).round() / 1000.0,
            "violations": nviol,
        });
        // VERIF_OUT_DIR redirects evidence and replay files (used by ./selftest so that
        // mutant runs never overwrite the evidence of the real tree)
        let vd = std::env::var("VERIF_OUT_DIR").unwrap_or_else(|_| verif_dir());
        if self.replay.is_none() {
            let _ = std::fs::create_dir_all(format!("{vd}/evidence"));
            let p = format!("{vd}/evidence/{}.json", self.id);
            if let Err(e) = std::fs::write(&p, serde_json::to_string_pretty(&ev).unwrap() + "\n") {
                self.machinery_error(format!("cannot write {p}: {e}"));
            }
        }
        for (i, n) in known_hits.iter() {
            println!("KNOWN-FINDING: property={} {} [oracle={} cases={}]", self.id, self.known[*i].what, self.known[*i].oracle, n);
        }
        if let Some((o, w)) = &self.replay {
            if self.replay_hit.load(Ordering::Relaxed) > 0 {
                println!("VIOLATION property={} replay={} (reproduced: oracle={} witness={})", self.id,
                    std::env::args().skip_while(|a| a != "--replay").nth(1).unwrap_or_default(), o, w);
                std::process::exit(1);
            }
            println!("replay: oracle={o} witness={w} did not fail");
            std::process::exit(if self.machinery.lock().unwrap().is_empty() { 0 } else { 2 });
        }
        let _ = std::fs::create_dir_all(format!("{vd}/replays"));
        for v in viols.iter() {
            let h = fnv(&format!("{}|{}", v.oracle, v.witness));
            let path = format!("{vd}/replays/{}-{}-{:016x}.json", self.id, v.oracle.replace(['/', ' '], "_"), h);
            let body = json!({"property": self.id, "tier": self.tier.name(), "oracle": v.oracle, "witness": v.witness, "detail": v.detail});
            let _ = std::fs::write(&path, serde_json::to_string_pretty(&body).unwrap() + "\n");
            println!("VIOLATION property={} replay={} oracle={} witness={} detail={}", self.id, path, v.oracle,
                trunc(&v.witness, 300), trunc(&v.detail, 300));
        }
        println!("{}: tier={} evaluations={} distinct_nontrivial={} spaces={} exhaustive={} violations={} known_hits={} wall={:.1}s",
            self.id, self.tier.name(), evals, nontriv, spaces.len(), exhaustive, nviol, known_hits.values().sum::<u64>(), wall);
        if !self.machinery.lock().unwrap().is_empty() { std::process::exit(2) }
        std::process::exit(if nviol > 0 { 1 } else { 0 })
    }
}

pub fn trunc(s: &str, n: usize) -> String {
    if s.len() <= n { s.to_string() } else {
        let mut e = n; while !s.is_char_boundary(e) { e -= 1 }
        format!("{}…", &s[..e])
    }
}

pub fn hex(b: &[u8]) -> String {
    let mut s = String::with_capacity(b.len() * 2);
    for x in b { s.push_str(&format!("{x:02x}")); }
    s
}

pub fn unhex(s: &str) -> Vec<u8> {
    (0..s.len() / 2).map(|i| u8::from_str_radix(&s[2 * i..2 * i + 2], 16).unwrap()).collect()
}
