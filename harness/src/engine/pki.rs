//! Fixtures: certificate chains TA -> CA -> {CA, EE, router} built with the
//! library's `TbsCert` and the deterministic pool signer.

use std::str::FromStr;
use std::sync::Arc;
use rpki::crypto::keys::{KeyIdentifier, PublicKey};
use rpki::repository::cert::{Cert, ExtendedKeyUsage, KeyUsage, Overclaim, ResourceCert, TbsCert};
use rpki::repository::resources::{Addr, AsBlocks, AsResources, Asn, IpBlock, IpBlocks, IpResources};
use rpki::repository::tal::TalInfo;
use rpki::repository::x509::{Serial, Time, Validity};
use rpki::uri;
use crate::engine::signer::PoolSigner;

/// One family's claim.
#[derive(Clone, Debug, PartialEq, Eq)]
pub enum Claim {
    Missing,
    Inherit,
    /// inclusive ranges; for IP in *family-width* integers (v4: u32 values)
    Blocks(Vec<(u128, u128)>),
}

#[derive(Clone, Debug)]
pub struct Res { pub v4: Claim, pub v6: Claim, pub asn: Claim }

impl Res {
    pub fn all() -> Res {
        Res { v4: Claim::Blocks(vec![(0, u32::MAX as u128)]), v6: Claim::Blocks(vec![(0, u128::MAX)]), asn: Claim::Blocks(vec![(0, u32::MAX as u128)]) }
    }
    pub fn none() -> Res { Res { v4: Claim::Missing, v6: Claim::Missing, asn: Claim::Missing } }
}

pub fn v4_addr(x: u128) -> Addr { Addr::from_bits(x << 96) }
pub fn v6_addr(x: u128) -> Addr { Addr::from_bits(x) }

pub fn ip_blocks(fam_bits: u8, ranges: &[(u128, u128)]) -> IpBlocks {
    ranges.iter().map(|&(a, b)| {
        if fam_bits == 32 { IpBlock::from((v4_addr(a), Addr::from_bits((b << 96) | ((1u128 << 96) - 1)))) }
        else { IpBlock::from((v6_addr(a), v6_addr(b))) }
    }).collect()
}

pub fn as_blocks(ranges: &[(u128, u128)]) -> AsBlocks {
    ranges.iter().map(|&(a, b)| rpki::repository::resources::AsBlock::from((Asn::from_u32(a as u32), Asn::from_u32(b as u32)))).collect()
}

pub fn ip_res(fam_bits: u8, c: &Claim) -> IpResources {
    match c {
        Claim::Missing => IpResources::missing(),
        Claim::Inherit => IpResources::inherit(),
        Claim::Blocks(r) => IpResources::blocks(ip_blocks(fam_bits, r)),
    }
}

pub fn as_res(c: &Claim) -> AsResources {
    match c {
        Claim::Missing => AsResources::missing(),
        Claim::Inherit => AsResources::inherit(),
        Claim::Blocks(r) => AsResources::blocks(as_blocks(r)),
    }
}

/// Fixed instants (seconds since epoch) so that every run is reproducible.
pub const T0: i64 = 1_700_000_000; // 2023-11-14T22:13:20Z
pub fn time(secs: i64) -> Time { Time::new(chrono::DateTime::from_timestamp(secs, 0).unwrap()) }
pub fn default_validity() -> Validity { Validity::new(time(T0 - 86_400), time(T0 + 86_400 * 365)) }

pub fn rsync(s: &str) -> uri::Rsync { uri::Rsync::from_str(s).unwrap() }

#[derive(Clone, Copy, Debug, PartialEq, Eq)]
pub enum Kind { Ta, Ca, Ee, Router }

/// Everything about one certificate that the checks vary.
#[derive(Clone, Debug)]
pub struct Spec {
    pub kind: Kind,
    pub subject_key: usize,
    /// key that signs (for a TA: normally == subject_key)
    pub signing_key: usize,
    /// AKI written into the certificate (None = absent)
    pub aki: Option<KeyIdentifier>,
    /// SKI override (None = the hash of the subject key)
    pub ski_override: Option<KeyIdentifier>,
    pub serial: u128,
    pub validity: Validity,
    pub res: Res,
    pub overclaim: Overclaim,
    /// issuer name taken from this key (the library derives names from keys)
    pub issuer_name_key: usize,
}

impl Spec {
    pub fn ta(key: usize, res: Res) -> Spec {
        Spec { kind: Kind::Ta, subject_key: key, signing_key: key, aki: None, ski_override: None, serial: 1,
               validity: default_validity(), res, overclaim: Overclaim::Refuse, issuer_name_key: key }
    }
    pub fn issued(kind: Kind, subject_key: usize, issuer_key: usize, issuer_ski: KeyIdentifier, res: Res, overclaim: Overclaim) -> Spec {
        Spec { kind, subject_key, signing_key: issuer_key, aki: Some(issuer_ski), ski_override: None, serial: 2,
               validity: default_validity(), res, overclaim, issuer_name_key: issuer_key }
    }
}

pub fn build_tbs(signer: &PoolSigner, s: &Spec, router_key: Option<PublicKey>) -> TbsCert {
    let subject_pub = match (s.kind, router_key) {
        (Kind::Router, Some(k)) => k,
        _ => signer.public(s.subject_key),
    };
    let issuer_name = signer.public(s.issuer_name_key).to_subject_name();
    let key_usage = match s.kind { Kind::Ta | Kind::Ca => KeyUsage::Ca, _ => KeyUsage::Ee };
    let mut tbs = TbsCert::new(
        Serial::from(s.serial), issuer_name, s.validity, None, subject_pub, key_usage, s.overclaim,
    );
    match s.kind {
        Kind::Ta => {
            tbs.set_basic_ca(Some(true));
            tbs.set_ca_repository(Some(rsync("rsync://example.net/repo/ta/")));
            tbs.set_rpki_manifest(Some(rsync("rsync://example.net/repo/ta/ta.mft")));
        }
        Kind::Ca => {
            tbs.set_basic_ca(Some(true));
            tbs.set_ca_repository(Some(rsync("rsync://example.net/repo/ca/")));
            tbs.set_rpki_manifest(Some(rsync("rsync://example.net/repo/ca/ca.mft")));
            tbs.set_crl_uri(Some(rsync("rsync://example.net/repo/ta/ta.crl")));
            tbs.set_ca_issuer(Some(rsync("rsync://example.net/repo/ta.cer")));
        }
        Kind::Ee => {
            tbs.set_signed_object(Some(rsync("rsync://example.net/repo/ca/obj.roa")));
            tbs.set_crl_uri(Some(rsync("rsync://example.net/repo/ca/ca.crl")));
            tbs.set_ca_issuer(Some(rsync("rsync://example.net/repo/ca.cer")));
        }
        Kind::Router => {
            tbs.set_extended_key_usage(Some(ExtendedKeyUsage::create_router()));
            tbs.set_crl_uri(Some(rsync("rsync://example.net/repo/ca/ca.crl")));
            tbs.set_ca_issuer(Some(rsync("rsync://example.net/repo/ca.cer")));
        }
    }
    tbs.set_authority_key_identifier(s.aki);
    tbs.set_v4_resources(ip_res(32, &s.res.v4));
    tbs.set_v6_resources(ip_res(128, &s.res.v6));
    tbs.set_as_resources(as_res(&s.res.asn));
    tbs
}

/// Builds and signs; returns the certificate re-decoded from its DER (so that
/// what is validated is what a relying party would see).
pub fn build_cert(signer: &PoolSigner, s: &Spec) -> Cert {
    let der = build_cert_der(signer, s);
    Cert::decode(der.as_slice()).expect("freshly built certificate decodes")
}

pub fn build_cert_der(signer: &PoolSigner, s: &Spec) -> Vec<u8> {
    let rk = if s.kind == Kind::Router { Some(crate::engine::signer::ec_public(0)) } else { None };
    let tbs = build_tbs(signer, s, rk);
    let mut tbs_der = bcder::Captured::from_values(bcder::Mode::Der, tbs.encode_ref()).as_slice().to_vec();
    if let Some(ski) = s.ski_override {
        // patch the 20 octets inside the SKI extension: 06 03 55 1d 0e 04 16 04 14 <ski>
        let pat = [0x06u8, 0x03, 0x55, 0x1d, 0x0e, 0x04, 0x16, 0x04, 0x14];
        let pos = tbs_der.windows(pat.len()).position(|w| w == pat).expect("SKI extension present");
        tbs_der[pos + pat.len()..pos + pat.len() + 20].copy_from_slice(ski.as_slice());
    }
    sign_tbs(signer, s.signing_key, &tbs_der)
}

/// Assembles Certificate ::= SEQUENCE { tbs, sha256WithRSAEncryption, BIT STRING signature }
/// with the independent encoder, signing with aws-lc directly.
pub fn sign_tbs(signer: &PoolSigner, key: usize, tbs_der: &[u8]) -> Vec<u8> {
    use crate::engine::der;
    let sig = signer.sign_raw(key, tbs_der);
    der::seq(&[tbs_der.to_vec(), der::alg_sha256_with_rsa(), der::bitstring(0, &sig)])
}

pub fn tal() -> Arc<TalInfo> { TalInfo::from_name("verif".into()).into_arc() }

/// A validated TA with the given resources.
pub fn valid_ta(signer: &PoolSigner, key: usize, res: Res) -> ResourceCert {
    build_cert(signer, &Spec::ta(key, res)).validate_ta_at(tal(), true, time(T0)).expect("TA validates")
}

/// TA (key 0, everything) -> CA (key 1, `res`), validated at T0.
pub fn valid_ca(signer: &PoolSigner, ta: &ResourceCert, ta_key: usize, key: usize, res: Res) -> ResourceCert {
    let spec = Spec::issued(Kind::Ca, key, ta_key, ta.subject_key_identifier(), res, Overclaim::Refuse);
    build_cert(signer, &spec).validate_ca_at(ta, true, time(T0)).expect("CA validates")
}
