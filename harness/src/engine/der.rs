//! E5 — independent minimal DER encoder / TLV reader.
//!
//! Shares no code with `rpki::…::encode` or bcder's encoder: the point is that
//! the library's own builder and decoder can agree with each other and both
//! be wrong. Only what RFC 5652/6488/6482/9286/3779 structures need.

//------------ primitives ------------------------------------------------------

pub const T_BOOL: u8 = 0x01;
pub const T_INT: u8 = 0x02;
pub const T_BITSTR: u8 = 0x03;
pub const T_OCTSTR: u8 = 0x04;
pub const T_NULL: u8 = 0x05;
pub const T_OID: u8 = 0x06;
pub const T_UTF8: u8 = 0x0c;
pub const T_PRINTABLE: u8 = 0x13;
pub const T_IA5: u8 = 0x16;
pub const T_UTCTIME: u8 = 0x17;
pub const T_GENTIME: u8 = 0x18;
pub const T_SEQ: u8 = 0x30;
pub const T_SET: u8 = 0x31;

/// Definite, minimal length octets.
pub fn len_octets(n: usize) -> Vec<u8> {
    if n < 0x80 { vec![n as u8] }
    else {
        let mut b = Vec::new();
        let mut v = n;
        while v > 0 { b.push((v & 0xff) as u8); v >>= 8; }
        b.reverse();
        let mut out = vec![0x80 | b.len() as u8];
        out.extend(b);
        out
    }
}

pub fn tlv(tag: u8, content: &[u8]) -> Vec<u8> {
    let mut out = vec![tag];
    out.extend(len_octets(content.len()));
    out.extend_from_slice(content);
    out
}

pub fn cat(items: &[Vec<u8>]) -> Vec<u8> {
    let mut out = Vec::new();
    for i in items { out.extend_from_slice(i) }
    out
}

pub fn seq(items: &[Vec<u8>]) -> Vec<u8> { tlv(T_SEQ, &cat(items)) }

/// SET with the members in the order given (order is an enumerated dimension).
pub fn set_unsorted(items: &[Vec<u8>]) -> Vec<u8> { tlv(T_SET, &cat(items)) }

/// SET OF in DER order (ascending octet strings of the encodings).
pub fn set_of(items: &[Vec<u8>]) -> Vec<u8> {
    let mut v: Vec<Vec<u8>> = items.to_vec();
    v.sort();
    tlv(T_SET, &cat(&v))
}

/// Context-specific tag [n]; constructed or primitive.
pub fn ctx(n: u8, constructed: bool, content: &[u8]) -> Vec<u8> {
    tlv(0x80 | if constructed { 0x20 } else { 0 } | n, content)
}

/// Non-negative INTEGER from big-endian magnitude octets (minimal).
pub fn int_bytes(mag: &[u8]) -> Vec<u8> {
    let mut i = 0;
    while i + 1 < mag.len() && mag[i] == 0 { i += 1 }
    let mut c = Vec::new();
    if mag.is_empty() { c.push(0) }
    else {
        if mag[i] & 0x80 != 0 { c.push(0) }
        c.extend_from_slice(&mag[i..]);
    }
    tlv(T_INT, &c)
}

pub fn int_u(v: u128) -> Vec<u8> { int_bytes(&v.to_be_bytes()) }

pub fn boolean(b: bool) -> Vec<u8> { tlv(T_BOOL, &[if b { 0xff } else { 0 }]) }
pub fn null() -> Vec<u8> { vec![T_NULL, 0] }
pub fn octets(b: &[u8]) -> Vec<u8> { tlv(T_OCTSTR, b) }
pub fn ia5(s: &[u8]) -> Vec<u8> { tlv(T_IA5, s) }
pub fn printable(s: &str) -> Vec<u8> { tlv(T_PRINTABLE, s.as_bytes()) }
pub fn utf8(s: &str) -> Vec<u8> { tlv(T_UTF8, s.as_bytes()) }

pub fn bitstring(unused: u8, b: &[u8]) -> Vec<u8> {
    let mut c = vec![unused];
    c.extend_from_slice(b);
    tlv(T_BITSTR, &c)
}

/// OBJECT IDENTIFIER from its arcs.
pub fn oid(arcs: &[u64]) -> Vec<u8> {
    let mut c = Vec::new();
    let first = arcs[0] * 40 + arcs[1];
    let push = |mut v: u64, c: &mut Vec<u8>| {
        let mut tmp = vec![(v & 0x7f) as u8];
        v >>= 7;
        while v > 0 { tmp.push(0x80 | (v & 0x7f) as u8); v >>= 7; }
        tmp.reverse();
        c.extend(tmp);
    };
    push(first, &mut c);
    for a in &arcs[2..] { push(*a, &mut c) }
    tlv(T_OID, &c)
}

/// Civil time as the RFC 5280 rule says: UTCTime 1950..=2049, else GeneralizedTime.
#[derive(Clone, Copy, Debug, PartialEq, Eq, PartialOrd, Ord)]
pub struct Civil { pub y: i32, pub mo: u32, pub d: u32, pub h: u32, pub mi: u32, pub s: u32 }

pub fn utctime(t: Civil) -> Vec<u8> {
    tlv(T_UTCTIME, format!("{:02}{:02}{:02}{:02}{:02}{:02}Z", t.y.rem_euclid(100), t.mo, t.d, t.h, t.mi, t.s).as_bytes())
}
pub fn gentime(t: Civil) -> Vec<u8> {
    tlv(T_GENTIME, format!("{:04}{:02}{:02}{:02}{:02}{:02}Z", t.y, t.mo, t.d, t.h, t.mi, t.s).as_bytes())
}
pub fn time_auto(t: Civil) -> Vec<u8> {
    if (1950..=2049).contains(&t.y) { utctime(t) } else { gentime(t) }
}

//------------ well-known OIDs --------------------------------------------------

pub const OID_SIGNED_DATA: &[u64] = &[1, 2, 840, 113549, 1, 7, 2];
pub const OID_CONTENT_TYPE: &[u64] = &[1, 2, 840, 113549, 1, 9, 3];
pub const OID_MESSAGE_DIGEST: &[u64] = &[1, 2, 840, 113549, 1, 9, 4];
pub const OID_SIGNING_TIME: &[u64] = &[1, 2, 840, 113549, 1, 9, 5];
pub const OID_BINARY_SIGNING_TIME: &[u64] = &[1, 2, 840, 113549, 1, 9, 16, 2, 46];
pub const OID_SHA256: &[u64] = &[2, 16, 840, 1, 101, 3, 4, 2, 1];
pub const OID_RSA_ENCRYPTION: &[u64] = &[1, 2, 840, 113549, 1, 1, 1];
pub const OID_SHA256_WITH_RSA: &[u64] = &[1, 2, 840, 113549, 1, 1, 11];
pub const OID_CT_ROA: &[u64] = &[1, 2, 840, 113549, 1, 9, 16, 1, 24];
pub const OID_CT_MANIFEST: &[u64] = &[1, 2, 840, 113549, 1, 9, 16, 1, 26];
pub const OID_CT_ASPA: &[u64] = &[1, 2, 840, 113549, 1, 9, 16, 1, 49];
pub const OID_CT_PROTOCOL: &[u64] = &[1, 2, 840, 113549, 1, 9, 16, 1, 28];

//------------ RFC 5652 / 6488 SignedData ----------------------------------------

/// One signed attribute: SEQUENCE { OID, SET { value } }.
pub fn attribute(oid_arcs: &[u64], values: &[Vec<u8>]) -> Vec<u8> {
    seq(&[oid(oid_arcs), set_unsorted(values)])
}

pub fn attr_content_type(ct: &[u64]) -> Vec<u8> { attribute(OID_CONTENT_TYPE, &[oid(ct)]) }
pub fn attr_message_digest(d: &[u8]) -> Vec<u8> { attribute(OID_MESSAGE_DIGEST, &[octets(d)]) }
pub fn attr_signing_time(t: Vec<u8>) -> Vec<u8> { attribute(OID_SIGNING_TIME, &[t]) }
pub fn attr_binary_signing_time(secs: u64) -> Vec<u8> { attribute(OID_BINARY_SIGNING_TIME, &[int_u(secs as u128)]) }

/// Everything that goes into a SignedData; every field is free so that each
/// acceptance condition can be violated independently.
#[derive(Clone, Debug)]
pub struct SignedDataParts {
    pub version: u128,
    pub digest_alg_set: Vec<u8>,          // SET OF AlgorithmIdentifier, complete TLV
    pub econtent_type: Vec<u64>,
    pub econtent: Vec<u8>,                // raw eContent octets (wrapped in OCTET STRING here)
    pub certificates: Vec<Vec<u8>>,       // complete certificate TLVs
    pub crls: Vec<Vec<u8>>,               // complete CRL TLVs ([1] IMPLICIT), empty = absent
    pub si_version: u128,
    pub sid: Vec<u8>,                     // key identifier octets ([0] IMPLICIT)
    pub si_digest_alg: Vec<u8>,           // AlgorithmIdentifier TLV
    pub signed_attrs: Vec<Vec<u8>>,       // attribute TLVs in the order to be written
    pub sig_alg: Vec<u8>,                 // AlgorithmIdentifier TLV
    pub signature: Vec<u8>,
}

pub fn alg_sha256(with_null: bool) -> Vec<u8> {
    if with_null { seq(&[oid(OID_SHA256), null()]) } else { seq(&[oid(OID_SHA256)]) }
}
pub fn alg_rsa_encryption() -> Vec<u8> { seq(&[oid(OID_RSA_ENCRYPTION), null()]) }
pub fn alg_sha256_with_rsa() -> Vec<u8> { seq(&[oid(OID_SHA256_WITH_RSA), null()]) }

/// The octets the signature is computed over: the signed attributes as a
/// universal SET OF (tag 0x31) with a proper DER definite length.
pub fn signed_attrs_tbs(attrs: &[Vec<u8>]) -> Vec<u8> { tlv(T_SET, &cat(attrs)) }

pub fn signed_data(p: &SignedDataParts) -> Vec<u8> {
    let mut sd = vec![
        int_u(p.version),
        p.digest_alg_set.clone(),
        seq(&[oid(&p.econtent_type), ctx(0, true, &octets(&p.econtent))]),
    ];
    if !p.certificates.is_empty() { sd.push(ctx(0, true, &cat(&p.certificates))) }
    if !p.crls.is_empty() { sd.push(ctx(1, true, &cat(&p.crls))) }
    let si = seq(&[
        int_u(p.si_version),
        ctx(0, false, &p.sid),
        p.si_digest_alg.clone(),
        ctx(0, true, &cat(&p.signed_attrs)),
        p.sig_alg.clone(),
        octets(&p.signature),
    ]);
    sd.push(set_unsorted(&[si]));
    seq(&[oid(OID_SIGNED_DATA), ctx(0, true, &seq(&sd))])
}

//------------ RFC 9286 manifest, RFC 6482 ROA, ASPA econtent ---------------------

pub struct MftEntry { pub name: Vec<u8>, pub hash_unused: u8, pub hash: Vec<u8> }

pub fn manifest_content(version: Option<u128>, number: &[u8], this: Vec<u8>, next: Vec<u8>,
                        alg: &[u64], entries: &[MftEntry]) -> Vec<u8> {
    let mut items = Vec::new();
    if let Some(v) = version { items.push(ctx(0, true, &int_u(v))) }
    items.push(int_bytes(number));
    items.push(this);
    items.push(next);
    items.push(oid(alg));
    let fl: Vec<Vec<u8>> = entries.iter().map(|e| seq(&[ia5(&e.name), bitstring(e.hash_unused, &e.hash)])).collect();
    items.push(seq(&fl));
    seq(&items)
}

/// ROA address: BIT STRING prefix + optional maxLength.
pub struct RoaAddr { pub bits: Vec<u8>, pub unused: u8, pub max_len: Option<u128> }

pub fn roa_addr_from(addr: u128, len: u8, fam_bits: u8, max_len: Option<u128>) -> RoaAddr {
    // addr is left-aligned within fam_bits
    let full = if fam_bits == 32 { ((addr as u32).to_be_bytes()).to_vec() } else { addr.to_be_bytes().to_vec() };
    let nbytes = (len as usize).div_ceil(8);
    let unused = (nbytes * 8 - len as usize) as u8;
    let mut bits = full[..nbytes].to_vec();
    // DER: unused bits of the last octet are zero
    if unused > 0 { let l = bits.len() - 1; bits[l] &= 0xffu8 << unused; }
    RoaAddr { bits, unused, max_len }
}

pub fn roa_content(version: Option<u128>, asn: u128, v4: Option<&[RoaAddr]>, v6: Option<&[RoaAddr]>) -> Vec<u8> {
    let fam = |afi: [u8; 2], addrs: &[RoaAddr]| {
        let a: Vec<Vec<u8>> = addrs.iter().map(|x| {
            let mut it = vec![bitstring(x.unused, &x.bits)];
            if let Some(m) = x.max_len { it.push(int_u(m)) }
            seq(&it)
        }).collect();
        seq(&[octets(&afi), seq(&a)])
    };
    let mut items = Vec::new();
    if let Some(v) = version { items.push(ctx(0, true, &int_u(v))) }
    items.push(int_u(asn));
    let mut fams = Vec::new();
    if let Some(a) = v4 { fams.push(fam([0, 1], a)) }
    if let Some(a) = v6 { fams.push(fam([0, 2], a)) }
    items.push(seq(&fams));
    seq(&items)
}

/// ASPA eContent (draft-ietf-sidrops-aspa-profile): version [0] 1, customer, providers.
pub fn aspa_content(version: Option<u128>, customer: u128, providers: &[u128]) -> Vec<u8> {
    let mut items = Vec::new();
    if let Some(v) = version { items.push(ctx(0, true, &int_u(v))) }
    items.push(int_u(customer));
    let p: Vec<Vec<u8>> = providers.iter().map(|x| int_u(*x)).collect();
    items.push(seq(&p));
    seq(&items)
}

//------------ RFC 3779 extension bodies -------------------------------------------

/// IPAddress as BIT STRING of the first `len` bits of a left-aligned address.
pub fn ip_prefix_bits(addr: u128, len: u8, fam_bits: u8) -> Vec<u8> {
    let a = roa_addr_from(addr, len, fam_bits, None);
    bitstring(a.unused, &a.bits)
}

/// RFC 3779 range end encoding: min drops trailing zero bits, max drops trailing one bits.
pub fn ip_range(min: u128, max: u128, fam_bits: u8) -> Vec<u8> {
    let width = fam_bits as u32;
    let shift = 128 - width;
    let (mn, mx) = (min << shift, max << shift); // left-align in 128 for counting
    let tz = if min == 0 { width } else { (mn.trailing_zeros() - shift).min(width) };
    let min_len = (width - tz) as u8;
    let ones = if fam_bits == 32 { (!(max as u32)).trailing_zeros().min(32) } else { (!max).trailing_zeros().min(128) };
    let _ = mx;
    let max_len = (width - ones) as u8;
    // left-aligned within fam_bits
    seq(&[ip_prefix_bits(min, min_len, fam_bits), ip_prefix_bits(max, max_len, fam_bits)])
}

pub enum IpItem { Prefix(u128, u8), Range(u128, u128) }

/// IPAddrBlocks with one family: SEQUENCE OF IPAddressFamily.
pub fn ip_addr_blocks(afi: [u8; 2], fam_bits: u8, choice: Option<&[IpItem]>) -> Vec<u8> {
    let body = match choice {
        None => null(), // inherit
        Some(items) => {
            let v: Vec<Vec<u8>> = items.iter().map(|i| match i {
                IpItem::Prefix(a, l) => ip_prefix_bits(*a, *l, fam_bits),
                IpItem::Range(a, b) => ip_range(*a, *b, fam_bits),
            }).collect();
            seq(&v)
        }
    };
    seq(&[seq(&[octets(&afi), body])])
}

pub enum AsItem { Id(u128), Range(u128, u128) }

/// ASIdentifiers: SEQUENCE { asnum [0] EXPLICIT choice }.
pub fn as_identifiers(choice: Option<&[AsItem]>) -> Vec<u8> {
    let body = match choice {
        None => null(),
        Some(items) => {
            let v: Vec<Vec<u8>> = items.iter().map(|i| match i {
                AsItem::Id(a) => int_u(*a),
                AsItem::Range(a, b) => seq(&[int_u(*a), int_u(*b)]),
            }).collect();
            seq(&v)
        }
    };
    seq(&[ctx(0, true, &body)])
}

//------------ TLV reader (lenient, for mutation and inspection) --------------------

#[derive(Clone, Debug)]
pub struct Node {
    pub tag: u8,
    pub start: usize,       // offset of the tag octet
    pub hdr: usize,         // header length
    pub len: usize,         // content length
    pub children: Vec<Node>,
}

impl Node {
    pub fn end(&self) -> usize { self.start + self.hdr + self.len }
    pub fn content<'a>(&self, buf: &'a [u8]) -> &'a [u8] { &buf[self.start + self.hdr..self.end()] }
    pub fn whole<'a>(&self, buf: &'a [u8]) -> &'a [u8] { &buf[self.start..self.end()] }
    pub fn constructed(&self) -> bool { self.tag & 0x20 != 0 }
    /// Depth-first list of all nodes with their paths.
    pub fn walk<'a>(&'a self, path: &mut Vec<usize>, out: &mut Vec<(Vec<usize>, &'a Node)>) {
        out.push((path.clone(), self));
        for (i, c) in self.children.iter().enumerate() {
            path.push(i); c.walk(path, out); path.pop();
        }
    }
}

/// Parses definite-length single-octet-tag TLVs in buf[pos..end]. Returns
/// None when the bytes are not well-formed in that sense. OCTET STRING and
/// BIT STRING contents that parse completely as TLVs are descended into when
/// `dive` is set (extension values, eContent).
pub fn parse_tlvs(buf: &[u8], mut pos: usize, end: usize, dive: bool, depth: u32) -> Option<Vec<Node>> {
    let mut out = Vec::new();
    while pos < end {
        let tag = buf[pos];
        if tag & 0x1f == 0x1f { return None }
        if pos + 1 >= end { return None }
        let l0 = buf[pos + 1];
        let (hdr, len) = if l0 < 0x80 { (2, l0 as usize) } else {
            let n = (l0 & 0x7f) as usize;
            if n == 0 || n > 4 || pos + 2 + n > end { return None }
            let mut v = 0usize;
            for k in 0..n { v = (v << 8) | buf[pos + 2 + k] as usize }
            (2 + n, v)
        };
        if pos + hdr + len > end { return None }
        let mut node = Node { tag, start: pos, hdr, len, children: Vec::new() };
        if depth < 24 {
            if tag & 0x20 != 0 {
                node.children = parse_tlvs(buf, pos + hdr, pos + hdr + len, dive, depth + 1)?;
            } else if dive && tag == T_OCTSTR && len >= 2 {
                if let Some(ch) = parse_tlvs(buf, pos + hdr, pos + hdr + len, dive, depth + 1) {
                    if ch.len() == 1 && ch[0].tag & 0x20 != 0 { node.children = ch }
                }
            }
        }
        out.push(node);
        pos += hdr + len;
    }
    Some(out)
}

pub fn parse_one(buf: &[u8], dive: bool) -> Option<Node> {
    let v = parse_tlvs(buf, 0, buf.len(), dive, 0)?;
    if v.len() == 1 { v.into_iter().next() } else { None }
}

#[cfg(test)]
mod test {
    use super::*;
    #[test]
    fn basics() {
        assert_eq!(int_u(0), [2, 1, 0]);
        assert_eq!(int_u(127), [2, 1, 127]);
        assert_eq!(int_u(128), [2, 2, 0, 128]);
        assert_eq!(int_u(256), [2, 2, 1, 0]);
        assert_eq!(oid(OID_SHA256), [6, 9, 0x60, 0x86, 0x48, 1, 0x65, 3, 4, 2, 1]);
        assert_eq!(len_octets(127), [127]);
        assert_eq!(len_octets(128), [0x81, 128]);
        assert_eq!(len_octets(256), [0x82, 1, 0]);
        let s = seq(&[int_u(1), octets(&seq(&[null()]))]);
        let n = parse_one(&s, true).unwrap();
        assert_eq!(n.children.len(), 2);
        assert_eq!(n.children[1].children.len(), 1);
        // 10.0.0.0 - 10.0.0.255 => min /24 bits "10.0.0", max drops trailing ones
        let r = ip_range(0x0a000000, 0x0a0000ff, 32);
        assert_eq!(r, seq(&[bitstring(1, &[10]), bitstring(0, &[10, 0, 0])]));
        let r = ip_range(0, 0xffff_ffff, 32);
        assert_eq!(r, seq(&[bitstring(0, &[]), bitstring(0, &[])]));
        assert_eq!(ip_range(0, 1, 32), seq(&[bitstring(0, &[]), bitstring(1, &[0, 0, 0, 0])]));
        let r = ip_range(1, 2, 32);
        assert_eq!(r, seq(&[bitstring(0, &[0, 0, 0, 1]), bitstring(0, &[0, 0, 0, 2])]));
    }
}
