//! placeholder
